#!/usr/bin/env python3
"""confirm_mutant.py <Cxx> <k>: confirm the seeded change /tmp/mut/<Cxx>/out/patch<k>.diff in the scratch worktree
/tmp/mut/<Cxx>/wt: (1) demo passes on the clean tree, (2) patch applies, (3) the pinned suite still passes,
(4) demo fails with the patch; then keep it as /verif/seeded/<Cxx>-<k>/ (patch.diff, demo.py, meta.json)."""
import json, os, shutil, subprocess, sys
pid, k = sys.argv[1], sys.argv[2]
base = os.environ.get("MUT_BASE", "/tmp/mut")            # second round: MUT_BASE=/tmp/mut2 MUT_OFFSET=2
off = int(os.environ.get("MUT_OFFSET", "0"))
wt, out = f"{base}/{pid}/wt", f"{base}/{pid}/out"
patch, demo = f"{out}/patch{k}.diff", f"{out}/demo{k}.py"
def sh(cmd, **kw):
    return subprocess.run(cmd, shell=True, stdout=subprocess.PIPE, stderr=subprocess.STDOUT, text=True, **kw)
env = dict(os.environ, PYTHONPATH=wt, PYTHONHASHSEED="0", PYTHONWARNINGS="ignore")
env.pop("PUAN_VERIF", None)
assert sh(f"git -C {wt} status --porcelain").stdout.strip() == "", "worktree not clean"
r0 = sh(f"/venv/bin/python {demo}", env=env, cwd=out)
ok_clean = r0.returncode == 0
a = sh(f"git -C {wt} apply {patch}")
assert a.returncode == 0, a.stdout
try:
    b = sh(f"python3 {base}/baseline.py {wt}")
    ok_base = b.returncode == 0
    for _ in range(3):   # hypothesis tests in the suite are occasionally flaky (also on the clean tree): retries
        if ok_base: break
        b = sh(f"python3 {base}/baseline.py {wt}")
        ok_base = b.returncode == 0
    r1 = sh(f"/venv/bin/python {demo}", env=env, cwd=out)
    ok_fail = r1.returncode != 0
finally:
    sh(f"git -C {wt} checkout -- . && git -C {wt} clean -fdq")
sid = f"{pid}-{int(k) + off}"
print(f"{sid}: demo_clean_pass={ok_clean} suite_pass={ok_base} demo_patched_fail={ok_fail} :: {b.stdout.strip().splitlines()[0] if b.stdout.strip() else ''}")
if ok_clean and ok_base and ok_fail:
    d = f"/verif/seeded/{sid}"
    os.makedirs(d, exist_ok=True)
    shutil.copy(patch, f"{d}/patch.diff"); shutil.copy(demo, f"{d}/demo.py")
    notes = open(f"{out}/notes.md").read() if os.path.exists(f"{out}/notes.md") else ""
    open(f"{d}/notes.md", "w").write(notes)
    meta = {"id": sid, "property": pid, "source": "independent sub-agent given only the property text and a scratch worktree",
            "base_commit": sh(f"git -C {wt} rev-parse HEAD").stdout.strip(),
            "confirmed": {"demo_passes_on_clean_tree": True, "suite_passes_with_patch": b.stdout.strip().splitlines()[0],
                          "demo_fails_with_patch": (r1.stdout.strip().splitlines() or [""])[-1][:300]},
            "ran": [f"PYTHONPATH=<wt> /venv/bin/python demo.py (clean: exit 0)", f"git apply patch.diff", "python3 tools/baseline.py <wt> (125 passed)",
                    f"PYTHONPATH=<wt> /venv/bin/python demo.py (patched: exit {r1.returncode})"],
            "needs_to_manifest": "see notes.md (section for change %s)" % k}
    json.dump(meta, open(f"{d}/meta.json", "w"), indent=1)
    sys.exit(0)
sys.exit(1)
