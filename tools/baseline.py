#!/usr/bin/env python3
"""Run the repository's pinned suite (guard OFF) in a given tree and compare with /root/.vp/BASELINE.json.
usage: baseline.py [repo_dir]     exit 0 iff every stable_pass test passed."""
import json, os, subprocess, sys, tempfile, xml.etree.ElementTree as ET
repo = os.path.abspath(sys.argv[1]) if len(sys.argv) > 1 else "/repo"
base = json.load(open("/root/.vp/BASELINE.json"))
tmp = tempfile.mkdtemp(prefix="puan_baseline_")
env = dict(os.environ)
for k in ("PUAN_VERIF", "PUAN_VERIF_TRACE"):
    env.pop(k, None)
env["HYPOTHESIS_STORAGE_DIRECTORY"] = os.path.join(tmp, "hyp")
env["PYTHONPATH"] = repo
junit = os.path.join(tmp, "junit.xml")
cmd = ["/venv/bin/python", "-m", "pytest", "-ra", "-q", "-p", "no:cacheprovider", "--timeout=900",
       "--continue-on-collection-errors", "--junitxml=" + junit]
r = subprocess.run(cmd, cwd=repo, env=env, stdout=subprocess.PIPE, stderr=subprocess.STDOUT, text=True)
passed, failed = set(), set()
for tc in ET.parse(junit).getroot().iter("testcase"):
    name = tc.get("classname") + "::" + tc.get("name")
    bad = any(ch.tag in ("failure", "error") for ch in tc)
    skipped = any(ch.tag == "skipped" for ch in tc)
    (failed if bad else passed if not skipped else set()).add(name)
missing = sorted(set(base["stable_pass"]) - passed)
print(f"passed={len(passed)} failed={len(failed)} baseline={len(base['stable_pass'])} baseline_missing={len(missing)}")
for m in missing:
    print("MISSING", m)
newfail = sorted(failed - set(base["always_fail"]))
for m in newfail:
    print("NEWFAIL", m)
import shutil; shutil.rmtree(tmp, ignore_errors=True)
sys.exit(0 if not missing else 1)
