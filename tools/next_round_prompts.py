#!/usr/bin/env python3
"""next_round_prompts.py <prev_base> <new_base> <k1> <k2>: prompts for a further round of seeded changes, made from the previous
round's prompts: paths renamed, and the list of already known mechanisms extended by one characteristic added line of each change
kept in seeded/<Cxx>-<k1>, seeded/<Cxx>-<k2>.  (The sub-agents get the property text and a scratch worktree, nothing from /verif.)"""
import os, re, sys
prev, new, k1, k2 = sys.argv[1:5]
V = os.path.dirname(os.path.dirname(os.path.abspath(__file__)))
def added_line(patch):
    f, best = "", ""
    for ln in open(patch):
        if ln.startswith("+++ b/"): f = ln[6:].strip()
        elif ln.startswith("+") and not ln.startswith("+++"):
            t = ln[1:].strip()
            if t and not t.startswith("#") and len(t) > len(best) and len(t) < 140: best = t
    return "[%s: `%s`]" % (f, best)
os.makedirs(f"{new}/prompts", exist_ok=True)
for i in range(1, 21):
    pid = "C%02d" % i
    txt = open(f"{prev}/prompts/{pid}.txt").read().replace(prev, new)
    extra = [added_line(f"{V}/seeded/{pid}-{k}/patch.diff") for k in (k1, k2) if os.path.exists(f"{V}/seeded/{pid}-{k}/patch.diff")]
    m = re.search(r"(\(d\) the two changes must be DIFFERENT from these mechanisms, which are already known: )(.*?)(\n \(e\))", txt, re.S)
    txt = txt[:m.end(2)] + " ; " + " ; ".join(extra) + txt[m.start(3):]
    open(f"{new}/prompts/{pid}.txt", "w").write(txt)
print("ok")
