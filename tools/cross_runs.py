#!/usr/bin/env python3
"""cross_runs.py <worktree> <log>...: for every seeded change that the given logs show as NOT detected by the check of its own
property, run the check of the property it really breaks (table below, from DESIGN.md 15.x); prints run_seeded lines."""
import os, re, subprocess, sys
V = os.path.dirname(os.path.dirname(os.path.abspath(__file__)))
CROSS = {"C01-4": "C10", "C01-8": "C10", "C01-10": "C10", "C01-11": "C03", "C01-12": "C20", "C01-13": "C10", "C01-14": "C10",
         "C02-4": "C05", "C02-5": "C05", "C02-6": "C04", "C02-9": "C05", "C02-11": "C18", "C02-13": "C15", "C02-14": "C05",
         "C04-4": "C16", "C04-9": "C16", "C06-4": "C09", "C06-7": "C09", "C07-4": "C09", "C08-11": "C09", "C08-14": "C09",
         "C10-8": "C09", "C10-11": "C09", "C12-8": "C16", "C12-12": "C20", "C14-11": "C17", "C14-13": "C13", "C14-7": "C16"}
own = {}
for path in sys.argv[2:]:
    for line in open(path):
        m = re.match(r"(C\d+)-(\d+) check=(C\d+) exit=(\d+)", line)
        if m and m.group(1) == m.group(3):
            own[m.group(1) + "-" + m.group(2)] = int(m.group(4))
todo = [s for s, rc in sorted(own.items()) if rc != 1 and s in CROSS]
part = int(os.environ.get("PART", "0")); parts = int(os.environ.get("PARTS", "1"))
for sid in todo[part::parts]:
    subprocess.run([sys.executable, os.path.join(V, "tools", "run_seeded.py"), "--worktree", sys.argv[1], "--props", CROSS[sid], sid])
