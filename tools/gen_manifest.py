#!/usr/bin/env python3
"""Writes /verif/MANIFEST.json from the table below (kept in one place so the manifest stays valid)."""
import json, os, sys
sys.path.insert(0, "/verif")
V = "/verif"
LEVEL = {
 "C01": ("model_checking", "TLC checks C01 on every state of the builder specification (exhaustive small universes) and validates, event by event, recorded to_ge_polyhedron/evaluate_propositions results of the real library for every enumerated recipe plus a seeded random batch, on complete assignment boxes."),
 "C02": ("model_checking", "as C01, for the two directions of C02 (completion exists for every true assignment; for solver-safe models no integer point with a false leaf part), enumerated by TLC over leaf box x auxiliary 0/1 columns of the RECORDED matrix; constructors over boolean leaves must yield solver-safe trees."),
 "C03": ("model_checking", "TLC evaluates the arithmetic truth function (Iv) itself and demands equality with every recorded evaluate_propositions entry, all total assignments, three value forms, overrides of sub-proposition ids."),
 "C04": ("model_checking", "TLC enumerates constructor recipes (all classes, depth 2) and checks recorded truth tables of objects built via constructor, from_list, plog.from_json and Imply.from_cicJE against the documented truth functions TF."),
 "C05": ("model_checking", "TLC checks the complement on recorded evaluations AND on the projected structure of negate()/Not results, solver-safety and id preservation, all value/sign combinations, mixed children, sibling compounds, interleaved ids."),
 "C06": ("model_checking", "TLC enumerates every completion of each recorded partial/interval interpretation and checks containment for every reported node; flags and equation bounds against enumerated child valuations."),
 "C07": ("model_checking", "recorded assume() results are compared by TLC with evaluation on the union (library results and structurally through Iv), complete rest-boxes, bounds containment of unmentioned variables."),
 "C08": ("model_checking", "recorded reduce() results: TLC checks equal evaluation on every interpretation of the free leaves (library results and structurally) and that no constant is left inside."),
 "C10": ("model_checking", "adversarial builder universes (reused explicit ids, equal ids with different bounds incl. equal sums and the -1/-2 pair, self references, shared sub-propositions) enumerated by TLC; recorded errors() must satisfy accepted => WellDefined and TreeDistinct/SharesIdenticalOnly => accepted."),
 "C16": ("model_checking", "TLC enumerates recipes over every class of the JSON class map (incl. defaulted configurator Any/Xor and StingyConfigurator) and validates recorded to_json -> json.dumps/loads -> from_json round trips: same leaves and bounds, equal evaluation on the complete box (library results and structurally), explicit ids kept, no id emitted for generated ones, configurators: same tags, default priorities and polyhedron solution set up to generated-id naming."),
 "C17": ("model_checking", "recorded to_b64/from_b64 round trips of propositions and configurator polyhedra are compared by TLC field by field on abstract values (projection, to_short forms, a fixed query battery incl. select with capture and brute-force solvers; unpack - mutate - unpack again); the byte format itself is outside the model."),
 "C11": ("model_checking", "the fixpoint loop of reducable_rows_and_columns is a TLA+ machine (PuanPoly) whose every step is checked by TLC to preserve the lifted solution set on all matrices of the universe (plus termination under fairness); every matrix is replayed into the library: one-shot result, hook events of the real loop, and the public sub-operations are validated by TLC by enumeration of the integer box."),
 "C12": ("model_checking", "Tighten/RowBounds/NComb are transcribed with explicit floor arithmetic and checked by TLC against enumeration on the universe; recorded tighten_column_bounds/row_bounds/column_bounds/n_row_combinations (queried twice on the same object in rotated order) are validated by enumeration."),
 "C19": ("model_checking", "spec functions Sat/Sep/RowSep for 1-D, 2-D, 3-D point arrays; recorded ineqs_satisfied/separable/ineq_separate_points must equal them (matrices from the PuanPoly universe and random ones, points inside and outside the declared bounds)."),
 "C20": ("model_checking", "PuanBridge enumerates variable lists x dictionaries x lists and states what construct / index partition / from_list / to_list mean; recorded results (int, float and callable defaults, non-string and unicode ids, nested lists) must equal the spec functions."),
 "C13": ("model_checking", "PuanPrio enumerates priority arrays and TLC checks that the shadow algorithm satisfies the dominance relation, that prio is a dense ranking of levels and that shadow weights rank all 0/1 selections lexicographically; recorded ndint_compress results (7 methods; 2-D on both axes, flattened, batched 3-D) are validated against the relation (shadow: any weights with the stated features are accepted) or the exact function."),
 "C14": ("model_checking", "for configurators enumerated by the builder machine (defaulted/plain Any/Xor rules) TLC checks on the specification that the shadow-compressed [defaults; user priorities] objective ranks all feasible points lexicographically; the objective vectors and polyhedron a capturing solver RECEIVED from select() are validated: all-pairs ranking on the recorded polyhedron, and equality of leaf-projected optimal sets with the specified configurator (structure, default priorities and objective computed by the spec from the recipe)."),
 "C15": ("model_checking", "solve()/select() are driven with harness solvers (capture, brute-force exact, None, mixed, raising); TLC validates what the solver received (own polyhedron, weight at each column = weight given for that column's id / lexicographic ranking) and what was reported back (id alignment, generated-id and leaf filters, None -> {}, InfeasibleError) and re-checks the exact solver's answers for optimality and model truth."),
 "C09": ("model_checking", "the API is a TLA+ machine over a store of live objects (PuanAPI); TLC proves Purity/Determinism for the intended design and finds the purity counterexample itself when the named deviation (known finding D2) is enabled. Every enumerated length-2 call history (any op, any handle, dictionaries naming sub-proposition ids) is executed on live objects in long-lived processes; TLC validates per step that no live object's projection changed (except as explained by the listed known deviation, decided by the spec operator LeakT), that hook events are explained, and that every result equals the result of the same call on a freshly built identical object in a pristine process."),
 "C18": ("model_checking", "Add is an action of the API machine (AddIsBuild, IdKept checked by TLC); all add-sequences of length 3 over a rule catalogue are executed: each step is compared by TLC with direct construction (structure, default priorities, polyhedron, solutions), id kept, original unchanged (also later, as a ghost handle), refusal iff the id clashes with a top-level child."),
}
NOTE = "trusted: TLC/SANY + CommunityModules Json; harness/proj.py (projection of public attributes) and harness/tlaval.py; exhaustive only inside the universes listed in the evidence (spec_runs); random batch is seeded by VERIF_SEED"
TECH = "explicit TLA+ spec (PuanModel/PuanCtor/PuanBuild/PuanPoly/PuanBridge/PuanPrio/PuanAPI) model-checked by TLC + TLC trace validation (PuanTrace) of recorded implementation events"
ALL = ["C%02d" % i for i in range(1, 21)]
checks, na = [], []
for p in ALL:
    if p in LEVEL:
        cat, text = LEVEL[p]
        checks.append({"property_id": p, "quick_cmd": f"./check {p} --tier quick", "thorough_cmd": f"./check {p} --tier thorough",
                       "evidence_file": f"/verif/evidence/{p}.json", "replay_cmd_template": f"./check {p} --replay {{path}}",
                       "engine": "tlc+trace", "level_claimed": {"category": cat, "text": text, "design_ref": f"DESIGN.md section 5 ({p})"},
                       "level_note": NOTE, "technique": TECH})
    else:
        na.append({"property_id": p, "reason": "no check built"})
m = {"version": 1,
     "setup_cmd": "cd /verif && for f in spec/*.tla; do (cd spec && tla-sany $(basename $f) >/dev/null) || exit 1; done; mkdir -p evidence replays",
     "hooks": {"guard": "PUAN_VERIF", "enable": "environment variable PUAN_VERIF=1 set before `import puan` (the check script re-execs itself with it, PYTHONPATH=/repo so the working tree is imported)",
               "baseline_off_cmd": "python3 /verif/tools/baseline.py /repo", "source_commits": ["ae95066"], "add_only": True},
     "engines": [{"name": "tlc+trace", "path": "/verif/check", "serves_properties": [c["property_id"] for c in checks],
                  "kind_free_text": "TLC model checking of /verif/spec/*.tla (P1), replay of TLC-enumerated cases into the library (P2), TLC trace validation of the recorded events (P3)"},
                 {"name": "extra-behaviours", "path": "/verif/check EXTRA", "serves_properties": [],
                  "kind_free_text": "same pipeline for behaviour beyond the listed properties (spec/PuanExtra.tla): short forms, listings, reduced polyhedra, row distributions, neighbourhoods, reduce2d/ranking, misc helpers, constructor validation; reports EXTRA-BEHAVIOUR lines, never VIOLATION"},
                 {"name": "selftest", "path": "/verif/check SELFTEST", "serves_properties": [],
                  "kind_free_text": "binding demonstration: 43 single-field corruptions of recorded events must be rejected by TLC with the expected clause, the unchanged events accepted"}],
     "checks": checks, "not_applicable": na,
     "notes": "exit codes: 0 held, 1 VIOLATION, 2 machinery failure. Known findings: /verif/known_findings.jsonl. Seeded changes used to test the checks: /verif/seeded/."}
json.dump(m, open(f"{V}/MANIFEST.json", "w"), indent=1)
print("checks:", len(checks), "not_applicable:", len(na))
