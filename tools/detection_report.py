#!/usr/bin/env python3
"""detection_report.py <run_seeded log> [...]: summarise which seeded change was detected by which check; writes
seeded/DETECTION.md and records `detected_by` in every seeded/<id>/meta.json"""
import json, os, re, sys
V = os.path.dirname(os.path.dirname(os.path.abspath(__file__)))
res, nev = {}, {}
for path in sys.argv[1:]:
    for line in open(path):
        m = re.match(r"(C\d+-\d+) check=(C\d+) exit=(\d+) violations=(\d+)", line)
        if m:
            sid, prop, rc, nv = m.group(1), m.group(2), int(m.group(3)), int(m.group(4))
            res.setdefault(sid, {})[prop] = rc          # later logs (given later on the command line) override earlier ones
            m2 = re.search(r" violations=(\d+) outside_domain", line)
            nev.setdefault(sid, {})[prop] = int(m2.group(1)) if m2 else 0
rows = []
for sid in sorted(os.listdir(os.path.join(V, "seeded"))):
    d = os.path.join(V, "seeded", sid)
    if not os.path.isdir(d) or not os.path.exists(os.path.join(d, "meta.json")): continue
    meta = json.load(open(os.path.join(d, "meta.json")))
    r = res.get(sid, {})
    det = sorted(p for p, rc in r.items() if rc == 1)
    if r:
        meta["detected_by"] = det
        meta["checked_with"] = sorted(r)
        json.dump(meta, open(os.path.join(d, "meta.json"), "w"), indent=1)
    rows.append((sid, meta["property"], meta.get("detected_by", []), meta.get("checked_with", []),
                 ", ".join("%s: %d" % (p, nev.get(sid, {}).get(p, 0)) for p in meta.get("detected_by", []))))
with open(os.path.join(V, "seeded", "DETECTION.md"), "w") as f:
    f.write("# Seeded changes and the checks that detect them (quick tier)\n\nRejected events = number of recorded events TLC rejected with a clause of that property "
            "(a change caught by very few events of a random batch is caught by luck; see DESIGN.md 15.4).\n\n"
            "| seeded | property | detected by | run with | rejected events |\n|---|---|---|---|---|\n")
    for sid, prop, det, ck, ne in rows:
        f.write("| %s | %s | %s | %s | %s |\n" % (sid, prop, ", ".join(det) or "**not detected**", ", ".join(ck), ne))
    own = sum(1 for r in rows if r[1] in r[2])
    f.write("\n%d of %d detected by the check of their own property.\n" % (own, len(rows)))
    n = len(rows); k = sum(1 for r in rows if r[2])
    f.write("\n%d of %d detected by at least one check.\n" % (k, n))
print(open(os.path.join(V, "seeded", "DETECTION.md")).read()[-400:])
