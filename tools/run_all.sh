#!/bin/bash
# run every registered quick (or thorough) check on the current tree; prints one line per property
tier=${1:-quick}
cd "$(dirname "$0")/.."
for i in $(seq -w 1 20); do
  p=C$i
  s=$(date +%s)
  out=$(./check $p --tier $tier 2>&1); rc=$?
  e=$(date +%s)
  echo "$p rc=$rc $((e-s))s :: $(echo "$out" | grep -c '^VIOLATION') violations :: $(echo "$out" | grep -c '^KNOWN-FINDING') known :: $(echo "$out" | tail -1 | cut -c1-200)"
done
