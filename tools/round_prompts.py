#!/usr/bin/env python3
"""round_prompts.py <base>: write <base>/prompts/<Cxx>.txt, the prompt a fresh sub-agent gets for a further round of seeded
changes: the text of one property, its own scratch worktree <base>/<Cxx>/wt, an output directory, and one characteristic added
line of every change kept so far for that property (so that the new ones are different).  Nothing from /verif's machinery."""
import json, os, sys
V = os.path.dirname(os.path.dirname(os.path.abspath(__file__)))
base = sys.argv[1]
SLANTS = {
 "sites": """     change 1 should consist of TWO COOPERATING SITES (two functions / two files) that each look fine alone and are only wrong together,
       or need a MULTI-STEP SEQUENCE of public calls (object built one way, transformed by a second public method, then queried by a third);
     change 2 should need an UNUSUAL BUT LEGITIMATE INPUT (a rarely combined set of constructor arguments, a structural coincidence
       such as equal thresholds / repeated sub-structures / ids in a particular sort order / a boundary value of a range, an alternative
       entry point such as from_json / from_list / from_short / from_cicJE / module level alias / sub class) or an error path taken first;""",
 "interaction": """     change 1 should be wrong only where TWO FEATURES of the library meet (for example: defaults x negation, shared sub-propositions x assume/reduce,
       integer leaves x configurator, explicit ids x generated ids of equal spelling, JSON loading x add(), numpy scalars x Bounds, sub classes x
       serialisation) while each feature alone still behaves as before;
     change 2 should sit on a BOUNDARY or an EARLY-EXIT / EXCEPTION PATH of a public method the property mentions: the empty, singleton or
       all-equal input, the first / last element, a value exactly at a bound, a call that legitimately raises and is followed by an ordinary call,
       a fast path for a special case that is taken slightly too often;""",
 "helpers": """     change 1 should be made in a HELPER, BASE CLASS or DUNDER METHOD that several public methods rely on (puan/__init__.py: Bounds, variable,
       their __eq__/__hash__/__lt__/__iter__; puan/misc; variable_ndarray.__new__/__array_finalize__; AtLeast.__init__/__eq__/__hash__/
       flatten/_dependencies/_id_generator; sorting and de-duplication of sub-propositions), so that its effect on the property is INDIRECT
       and shows only for particular inputs;
     change 2 should change the treatment of a DOCUMENTED BUT RARELY USED PARAMETER, default argument or optional input form of a public
       method the property mentions (a keyword that is normally left at its default, a second positional form, an iterable instead of a list,
       a numpy scalar instead of an int, an empty / singleton / duplicated collection, a model that mixes configurator and plain classes);""",
}
slant = SLANTS[sys.argv[2] if len(sys.argv) > 2 else "sites"]
props = {}
for l in open(f"{V}/properties.jsonl"):
    p = json.loads(l); props[p["id"]] = p
def added_line(patch):
    f, best = "", ""
    for ln in open(patch):
        if ln.startswith("+++ b/"): f = ln[6:].strip()
        elif ln.startswith("+") and not ln.startswith("+++"):
            t = ln[1:].strip()
            if t and not t.startswith("#") and len(best) < len(t) < 140: best = t
    return "[%s: `%s`]" % (f, best)
T = """You are helping to evaluate a verification framework for the Python library puan (ourstudio-se/puan-python: propositional
AtLeast/All/Any/Xor logic trees, conversion to integer polyhedra, polyhedron reduction, a configurator).  Your job is to write
REALISTIC REGRESSIONS: small source changes a maintainer could plausibly make (a refactoring, an optimisation, a "clean up",
a cache, a changed default, an early exit) that silently break ONE stated semantic property while everything still imports and the
existing test suite still passes.

Your scratch git worktree of the library: {wt}    (work ONLY there; never touch /repo or /verif, never commit)
Your output directory: {out}
Python: /venv/bin/python with PYTHONPATH={wt} (so your worktree is imported, not the installed copy).  No network.
Run the pinned test suite with:   python3 {base}/baseline.py {wt}     (prints passed=.. ; exit 0 iff all 125 stable tests pass;
two hypothesis tests are occasionally flaky even on the clean tree - re-run once before you believe a failure).

THE PROPERTY ({pid}: {title}):
{stmt}

Code the property is anchored in: {anchors}

Produce TWO independent changes (each applies alone to the clean worktree):
 (a) each breaks the property above for some inputs / call sequences, demonstrably;
 (b) each still lets `python3 {base}/baseline.py {wt}` exit 0;
 (c) each needs something SPECIFIC to manifest, not something ordinary use would show at once.  For this round:
{slant}
 (d) the two changes must be DIFFERENT from these mechanisms, which are already known (one characteristic added line of each):
     {known}
 (e) keep each change small (a few lines to ~25 lines), in the style of the surrounding code, without comments that give it away.

For each change k in (1, 2) write into {out}:
   patch<k>.diff   = `git -C {wt} diff` of that change alone (then `git -C {wt} checkout -- .` before making the next one)
   demo<k>.py      = a small self-contained program (imports puan from PYTHONPATH) that exits 0 on the clean tree and exits non-zero
                     with the change applied, printing what differs; it should check the property's statement (against an independent
                     brute-force computation or a freshly built object), not an implementation detail
and one notes.md with, per change: what it is, why it breaks the property, exactly what it needs in order to manifest, and which
kinds of inputs / call sequences would NOT show it.
Before you finish, verify yourself for each change: demo passes clean, patch applies, baseline passes with the patch, demo fails with
the patch; leave the worktree clean (`git -C {wt} status --porcelain` empty).  Report in your final answer, per change, one
paragraph: the mechanism and what a checker must do to see it.
"""
os.makedirs(f"{base}/prompts", exist_ok=True)
for pid, p in sorted(props.items()):
    known = []
    for d in sorted(os.listdir(f"{V}/seeded")):
        if d.startswith(pid + "-") and os.path.exists(f"{V}/seeded/{d}/patch.diff"):
            known.append(added_line(f"{V}/seeded/{d}/patch.diff"))
    anchors = p.get("anchors") or p.get("code_anchors") or p.get("anchor") or ""
    if not isinstance(anchors, str): anchors = json.dumps(anchors)
    stmt = p.get("statement") or p.get("text") or ""
    open(f"{base}/prompts/{pid}.txt", "w").write(T.format(wt=f"{base}/{pid}/wt", out=f"{base}/{pid}/out", base=base, pid=pid,
         title=p.get("title", ""), stmt=stmt, anchors=anchors, known=" ; ".join(known), slant=slant))
print("ok", len(props))
