#!/venv/bin/python
"""ph_probe.py <seeded id>...: apply each seeded change in a scratch worktree and run ONLY the polyhedron-object histories
(machine PuanPolyAPI, length 2) against it; prints the failing clauses (development aid, not a registered check)."""
import collections, os, subprocess, sys
V = os.path.dirname(os.path.dirname(os.path.abspath(__file__)))
if os.environ.get("_PH") != "1":
    wt = "/tmp/ph_wt"
    subprocess.run(f"git -C /repo worktree remove --force {wt}", shell=True, capture_output=True)
    subprocess.run(f"git -C /repo worktree add -q --detach {wt} HEAD", shell=True, check=True)
    try:
        for sid in sys.argv[1:]:
            subprocess.run(f"git -C {wt} apply {V}/seeded/{sid}/patch.diff", shell=True, check=True)
            env = dict(os.environ, _PH="1", PUAN_REPO=wt, PUAN_VERIF="1", PYTHONHASHSEED="0", PYTHONPATH=wt + os.pathsep + V, PYTHONWARNINGS="ignore", _SID=sid)
            subprocess.run([sys.executable, __file__], env=env, cwd=V)
            subprocess.run(f"git -C {wt} checkout -- . && git -C {wt} clean -fdq", shell=True)
    finally:
        subprocess.run(f"git -C /repo worktree remove --force {wt}", shell=True, capture_output=True)
    sys.exit(0)
sys.path.insert(0, V)
from harness import core, props, drivers
ctx = core.Ctx("C11", "quick", 0)
cases = props.poly_histories(ctx, 2)
ctx.pmap(drivers.drv_poly_history, props._stamp(cases, "drv_poly_history"))
ctx.validate()
print(os.environ["_SID"], len(ctx.rejects), "rejected histories", dict(collections.Counter(c for v in ctx.rejects.values() for c in v)))
ctx.close()
