#!/usr/bin/env python3
"""run_seeded.py [--tier quick] [--props C01,C02] [seeded ids...]: apply each kept seeded change to /repo, run the
check of the property it breaks (plus any extra --props), undo the change straight afterwards, report detection."""
import argparse, json, os, subprocess, sys, time
ap = argparse.ArgumentParser()
ap.add_argument("ids", nargs="*")
ap.add_argument("--tier", default="quick")
ap.add_argument("--props", default="")
ap.add_argument("--worktree", default="", help="apply the changes in this scratch worktree of /repo (created and removed here) instead of /repo itself")
a = ap.parse_args()
V = os.path.dirname(os.path.dirname(os.path.abspath(__file__)))
ids = a.ids or sorted(os.listdir(f"{V}/seeded"))
REPO = "/repo"
if a.worktree:
    REPO = a.worktree
    subprocess.run(f"git -C /repo worktree remove --force {REPO}", shell=True, capture_output=True)
    r = subprocess.run(f"git -C /repo worktree add -q --detach {REPO} HEAD", shell=True, capture_output=True, text=True)
    assert r.returncode == 0, r.stderr
assert subprocess.run(f"git -C {REPO} status --porcelain", shell=True, capture_output=True, text=True).stdout.strip() == "", "repo not clean"
results = {}
import shutil, tempfile
keep = tempfile.mkdtemp(prefix="evidence_keep_")          # evidence written under a seeded change is not evidence
for f in os.listdir(f"{V}/evidence"): shutil.copy(f"{V}/evidence/{f}", keep)
for sid in ids:
    d = f"{V}/seeded/{sid}"
    meta = json.load(open(f"{d}/meta.json"))
    props = [meta["property"]] + [p for p in a.props.split(",") if p and p != meta["property"]]
    r = subprocess.run(f"git -C {REPO} apply {d}/patch.diff", shell=True, capture_output=True, text=True)
    if r.returncode != 0:
        print(sid, "PATCH DOES NOT APPLY", r.stderr[:200]); continue
    try:
        for p in props:
            t0 = time.time()
            c = subprocess.run([f"{V}/check", p, "--tier", a.tier], cwd=V, capture_output=True, text=True, env=dict(os.environ, PUAN_REPO=REPO))
            viol = [l for l in c.stdout.splitlines() if l.startswith("VIOLATION")]
            last = (c.stdout.strip().splitlines() or [""])[-1]
            print(f"{sid} check={p} exit={c.returncode} violations={len(viol)} {time.time()-t0:.0f}s :: {last[:160]}", flush=True)
            if c.returncode == 2:
                print("   MACHINERY:", c.stdout[-600:].replace("\n", " | "))
            results[f"{sid}:{p}"] = c.returncode
    finally:
        subprocess.run(f"git -C {REPO} checkout -- . && git -C {REPO} clean -fdq", shell=True)
if a.worktree:
    subprocess.run(f"git -C /repo worktree remove --force {REPO}", shell=True, capture_output=True)
for f in os.listdir(keep): shutil.copy(f"{keep}/{f}", f"{V}/evidence/{f}")
shutil.rmtree(keep)
json.dump(results, open(f"{V}/.seeded_last.json", "w"), indent=1)
