"""Child interpreter of the cross-process base64 check (C17): started with ANOTHER PYTHONHASHSEED than the packing process; reads
{"recipe", "s", "is_cfg"} lines from stdin, unpacks every string and writes the projected result (same vocabulary as the parent)."""
import json, sys

def observe(obj, recipe, proj, B, pg, tok):
    fresh = B.build(recipe)
    out = {"node": proj.node(obj, tok),
           "flat": [tok(x.id) for x in obj.flatten()],
           "text": [list(ln.encode("utf-8")) for ln in obj.to_text().split("\n")],
           "errors": sorted(str(getattr(x, "value", x)) for x in obj.errors())}
    try:
        mix = pg.All(obj, fresh)                       # the object next to a freshly built equal one: one sub-proposition, not two
        out["mix"] = {"value": proj.I(mix.value), "kids": len(mix.propositions), "flat": sorted(str(tok(x.id)) for x in mix.flatten())}
    except BaseException as ex:
        out["mix"] = {"raised": type(ex).__name__}
    return out

def main():
    from . import proj, build as B
    import puan.logic.plog as pg
    for line in sys.stdin:
        if not line.strip(): continue
        c = json.loads(line)
        tok = proj.Tok()
        try:
            back = pg.from_b64(c["s"])
            res = observe(back, c["recipe"], proj, B, pg, tok)
        except BaseException as ex:
            res = {"raised": type(ex).__name__, "msg": str(ex)[:200]}
        sys.stdout.write(json.dumps(res) + "\n")
        sys.stdout.flush()

if __name__ == "__main__":
    main()
