"""Spec recipes (PuanCtor.tla) -> real objects built with the library's own constructors."""

_SUB = {}
_OCC = [0, {}]
def _leaf_subclass():
    import puan
    if "c" not in _SUB:
        class Component(puan.variable):          # a user defined variable sub class is a legitimate leaf
            pass
        _SUB["c"] = Component
    return _SUB["c"]

def build(r, leaf_str=False, via="ctor", style=0, memo=None, _root=True):
    """style: 0 plain; 1 leaves are instances of a puan.variable sub class; 2 AtLeast/AtMost get their arguments as a one-shot
    generator; 3 as a map object. memo: a dictionary shared by several build() calls -- equal sub-recipes then are ONE Python
    object used in all of the built models (a user who keeps a sub-proposition in a variable and uses it twice)"""
    import puan, puan.logic.plog as pg
    if memo is not None and not _root:
        import json as _json
        key = _json.dumps(r, sort_keys=True)
        if key not in memo:
            memo[key] = build(r, leaf_str, via, style, memo, True)
        return memo[key]
    if _root: _OCC[0] = 0; _OCC[1] = {}
    if r["c"] == "leaf":
        if style == 4 and (r["lo"], r["hi"]) == (0, 1):
            # boolean leaves alternately as a bare id and as a variable object: two copies of one sub-proposition get different
            # spellings of the same children
            n_ = _OCC[1].get(r["id"], 0) + 1
            _OCC[1][r["id"]] = n_
            if (n_ + sum(map(ord, str(r["id"])))) % 2 == 0: return r["id"]          # the occurrences of one leaf alternate, neighbours in opposite phase
        if leaf_str and (r["lo"], r["hi"]) == (0, 1) and style not in (1, 4):
            return r["id"]
        cls = _leaf_subclass() if style == 1 else puan.variable
        # the same declaration in the spellings the constructor documents (tuple / list / Bounds / single integer, dtype named or not)
        lo, hi = r["lo"], r["hi"]
        f = (sum(map(ord, str(r["id"]))) + 3 * lo + hi) % 5 if isinstance(lo, int) and isinstance(hi, int) else 0
        if f == 1: return cls(r["id"], (lo, hi), dtype="int")
        if f == 2: return cls(r["id"], [lo, hi])
        if f == 3: return cls(r["id"], puan.Bounds(lo, hi))
        if f == 4 and (lo, hi) == (0, 1): return cls(r["id"], dtype="bool")
        if f == 4 and lo == hi: return cls(r["id"], lo)
        return cls(r["id"], (lo, hi))
    args = [build(x, leaf_str, via, style, memo, False) for x in r["a"]]
    ident = r["id"] or None
    if ident is not None and r.get("f", -1) != -1 and via != "json":
        import puan as _p
        ident = _p.variable(ident, (r["f"], r["f"]))         # pre-fixed compound: variable with constant bounds
    if isinstance(ident, str) and r["c"] not in ("Cfg", "Not") and via == "ctor" and (len(ident) + len(r["a"])) % 3 == 1:
        import puan as _p
        ident = _p.variable(ident)                          # the id handed over as a variable object (documented: variable or str)
    c = r["c"]
    if via == "json":
        # the document is parsed twice (a caller may keep and re-use its document): the second result is the one that is used
        doc = to_json_recipe(r)
        if c == "Cfg":
            import puan.modules.configurator as cc
            cc.StingyConfigurator.from_json(doc)
            return cc.StingyConfigurator.from_json(doc)
        pg.from_json(doc)
        return pg.from_json(doc)
    it = args
    if style == 2: it = (x for x in args)
    if style == 3: it = map(lambda x: x, args)
    if c == "AtLeast":
        return pg.AtLeast(r["v"], it, variable=ident, sign=(None if r["s"] == 0 else r["s"]))
    if c == "AtMost":
        return pg.AtMost(r["v"], it, variable=ident)
    if c in ("All", "Any", "Xor", "XNor", "ExactlyOne"):
        cls = getattr(pg, c)
        if via == "from_list":
            return cls.from_list(args, variable=ident)
        return cls(*args, variable=ident)
    if c == "Imply":
        return pg.Imply(args[0], args[1], variable=ident)
    if c == "Not":
        return pg.Not(args[0])
    if c in ("ccAny", "ccXor"):
        import puan.modules.configurator as cc
        cls = cc.Any if c == "ccAny" else cc.Xor
        dflt = ([r["d"]] + ([r["d2"]] if r.get("d2") else [])) if r.get("d") else None
        if dflt and r.get("dobj"):
            # the default handed over as the option OBJECT itself (documented: propositions or ids) instead of its id
            byid = {getattr(x, "id", x): x for x in args}
            dflt = [byid.get(i, i) for i in dflt]
        if via == "from_list":
            return cls.from_list(args, variable=ident, default=dflt or [])
        if dflt:
            # the defaults as a list, a tuple, or (a single one) a set: any collection of ids / propositions
            f = (len(args) + len(str(r["d"]))) % 3
            if f == 1: dflt = tuple(dflt)
            elif f == 2 and len(dflt) == 1 and isinstance(dflt[0], str): dflt = set(dflt)
        return cls(*args, default=dflt, variable=ident)
    if c == "Cfg":
        import puan.modules.configurator as cc
        return cc.StingyConfigurator(*args, id=ident)
    raise ValueError("unknown recipe class %r" % c)

def to_json_recipe(r):
    """the JSON document that, fed to plog.from_json, applies the same constructors"""
    if r["c"] == "leaf":
        d = {"id": r["id"]}
        if (r["lo"], r["hi"]) != (0, 1):
            d["bounds"] = {"lower": r["lo"], "upper": r["hi"]}
        if r["id"][:1] in ("b", "t"):
            d["type"] = "Variable" if r["id"][:1] == "b" else "Proposition"      # both spellings denote a variable
        return d
    c = r["c"]
    d = {"type": {"ccAny": "Any", "ccXor": "Xor", "Cfg": "StingyConfigurator"}.get(c, c)}
    if c == "AtLeast" and not r["id"]:
        del d["type"]                    # a document without type but with propositions is an AtLeast
    if r["id"]: d["id"] = r["id"]
    if c in ("ccAny", "ccXor") and r.get("d"):
        d["default"] = [{"id": r["d"]}]
    if c == "Imply":
        d["condition"] = to_json_recipe(r["a"][0]); d["consequence"] = to_json_recipe(r["a"][1])
    elif c == "Not":
        d["proposition"] = to_json_recipe(r["a"][0])
    else:
        d["propositions"] = [to_json_recipe(x) for x in r["a"]]
        if c in ("AtLeast", "AtMost"):
            d["value"] = r["v"]
        if c == "AtLeast" and r["s"] != 0:
            d["sign"] = r["s"]
    return d

def recipe_leaves(r, acc=None):
    acc = {} if acc is None else acc
    if r["c"] == "leaf":
        acc[r["id"]] = (r["lo"], r["hi"])
    else:
        for x in r["a"]: recipe_leaves(x, acc)
    return acc

def recipe_tokens(r, tok):
    """the recipe with ids replaced by the trace tokens (explicit ids and leaf ids)"""
    if r["c"] == "leaf":
        return {"c": "leaf", "id": tok(r["id"]), "lo": r["lo"], "hi": r["hi"]}
    return {"c": r["c"], "a": [recipe_tokens(x, tok) for x in r["a"]], "id": tok(r["id"]) if r["id"] else "",
            "v": r["v"], "s": r["s"], "d": tok(r["d"]) if r.get("d") else "", "f": r.get("f", -1)}

_RULE = {"All": "REQUIRES_ALL", "Any": "REQUIRES_ANY", "Xor": "REQUIRES_EXCLUSIVELY"}

def _components(args):
    if all(x["c"] == "leaf" and (x["lo"], x["hi"]) == (0, 1) for x in args):
        return [{"id": x["id"]} for x in args]
    return None

def _consequence(r):
    c = r["c"]
    if c in _RULE:
        comps = _components(r["a"]); rt = _RULE[c]
    elif c == "AtMost" and r["v"] == 1:
        comps = _components(r["a"]); rt = "ONE_OR_NONE"
    elif c == "Not" and r["a"][0]["c"] == "Any" and not r["a"][0]["id"]:
        comps = _components(r["a"][0]["a"]); rt = "FORBIDS_ALL"
    else:
        return None
    if comps is None: return None
    d = {"ruleType": rt, "components": comps}
    if r.get("id"): d["id"] = r["id"]
    return d

def to_cicje(r):
    """the rule dictionary for Imply.from_cicJE that denotes the same recipe, or None if the recipe has no such form"""
    if r["c"] == "Imply":
        cons = _consequence(r["a"][1])
        cond = r["a"][0]
        if cons is None or cond["c"] not in ("All", "Any"): return None
        if all(x["c"] == "leaf" for x in cond["a"]):
            comps = _components(cond["a"])
            if comps is None: return None
            sub = [{"relation": "ALL" if cond["c"] == "All" else "ANY", "components": comps}]
            if cond["c"] == "All" and len(comps) % 2 == 0:
                del sub[0]["relation"]                 # "ALL" is the documented default when the key is missing
            if cond["id"]: sub[0]["id"] = cond["id"]
            condition = {"relation": "ALL", "subConditions": sub}
        else:
            subs = []
            for x in cond["a"]:
                if x["c"] not in ("All", "Any"): return None
                comps = _components(x["a"])
                if comps is None: return None
                s = {"relation": "ALL" if x["c"] == "All" else "ANY", "components": comps}
                if x["c"] == "All" and len(subs) % 2 == 0:
                    del s["relation"]
                if x["id"]: s["id"] = x["id"]
                subs.append(s)
            if len(subs) < 2: return None
            condition = {"relation": "ALL" if cond["c"] == "All" else "ANY", "subConditions": subs}
            if cond["c"] == "All" and len(subs) == 2:
                del condition["relation"]
            if cond["id"]: condition["id"] = cond["id"]
        d = {"condition": condition, "consequence": cons}
        if r["id"]: d["id"] = r["id"]
        return d
    cons = _consequence(r)
    if cons is None: return None
    return {"consequence": cons}


def from_node(n, tok):
    """a fresh object with the definition of a projected node (plain AtLeast / variable objects; ids through the token map)"""
    import puan, puan.logic.plog as pg
    ident = tok.rev[n["id"]]
    if n["k"] == "a":
        return puan.variable(ident, (n["lo"], n["hi"]))
    kids = [from_node(k, tok) for k in n["kids"]]
    obj = pg.AtLeast(n["value"], kids, variable=puan.variable(ident, (n["lo"], n["hi"])), sign=n["sign"])
    obj.generated_id = bool(n["gen"])
    if n.get("prio", -1) != -1: obj.prio = n["prio"]
    return obj
