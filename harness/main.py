import argparse, json, os, sys, time, traceback
from . import core, props

def load_known():
    p = os.path.join(core.VERIF, "known_findings.jsonl")
    out = []
    if os.path.exists(p):
        for line in open(p):
            line = line.strip()
            if line and not line.startswith("#"):
                out.append(json.loads(line))
    return out

def main(argv):
    ap = argparse.ArgumentParser()
    ap.add_argument("prop")
    ap.add_argument("--tier", default=os.environ.get("VERIF_TIER", "quick"), choices=["quick", "thorough"])
    ap.add_argument("--replay", default=None)
    ap.add_argument("--selftest", action="store_true")
    a = ap.parse_args(argv)
    pid = a.prop.upper()
    if pid == "SELFTEST":
        from . import selftest
        import puan, puan.logic.plog, puan.modules.configurator
        ctx = core.Ctx("SELFTEST", a.tier, 0)
        ctx.known_findings = []
        try:
            return selftest.run(ctx)
        except core.Machinery as ex:
            print("MACHINERY", str(ex)[:6000]); return 2
        finally:
            ctx.close()
    if pid not in props.PROPS:
        print("unknown property", pid); return 2
    seed = int(os.environ.get("VERIF_SEED", "0") or 0)
    import puan, puan.logic.plog, puan.modules.configurator
    if not os.path.abspath(puan.__file__).startswith(os.path.abspath(core.REPO) + os.sep):
        print("MACHINERY puan imported from %s, not from %s" % (puan.__file__, core.REPO)); return 2
    if not puan._verif.ENABLED:
        print("MACHINERY hooks are not enabled"); return 2
    ctx = core.Ctx(pid, a.tier, seed, replaying=bool(a.replay))
    ctx.known_findings = [k for k in load_known() if k["property"] == pid]
    try:
        if a.replay:
            return props.replay(ctx, a.replay)
        props.PROPS[pid]["run"](ctx)
        return props.finish(ctx)
    except core.Machinery as ex:
        print("MACHINERY", str(ex)[:6000])
        return 2
    except Exception:
        print("MACHINERY unexpected exception\n" + traceback.format_exc())
        return 2
    finally:
        ctx.close()
