"""Seeded random recipes (same vocabulary as PuanCtor.tla) for the independent drivers: shapes the
bounded TLC universes do not reach (>= 4 children, depth >= 3, shared sub-propositions, integer
leaves with negative lower bounds, values beyond the attainable range, explicit and generated ids)."""
import random

BOOL = [(i, 0, 1) for i in ("a", "A", "b", "c", "Z", "e", "f", "g", "h", "i", "k", "l", "m", "p", "q", "r")]   # generated ids hash these: many names = many sort orders
INTS = [("t", -1, 2), ("u", 0, 2), ("w", -2, 1), ("x", 1, 3), ("z", -3, -1), ("v", -2, 0), ("n", -1, 0)]
DEGEN = [("k", 1, 1), ("o", 0, 0)]          # boolean leaves with degenerate bounds
WIDE = [("W", -32768, 32767), ("Y", 0, 20000), ("V", -20000, 5), ("X", -40000, 40000)]   # 16-bit ranges and beyond

def leaf(l):
    return {"c": "leaf", "id": l[0], "lo": l[1], "hi": l[2]}

class Gen:
    def __init__(self, rng, classes=("AtLeast", "AtMost", "All", "Any", "Xor", "XNor", "Imply", "Not"),
                 ints=True, max_kids=4, depth=3, explicit=0.5, share=0.3, max_box=256, values=(-3, 4),
                 documented=False, prefix=0.0, wide=False):
        self.rng, self.classes, self.ints = rng, list(classes), ints
        self.max_kids, self.depth, self.explicit, self.share = max_kids, depth, explicit, share
        self.max_box, self.values, self.documented, self.prefix = max_box, values, documented, prefix
        self.wide = wide

    def recipe(self):
        """one random recipe with pairwise distinct explicit ids, consistent leaves, bounded assignment box"""
        for _ in range(200):
            self.nid = 0
            self.made = []
            pool = self.rng.sample(BOOL, self.rng.randint(2, 6))
            if self.ints:
                pool += self.rng.sample(INTS, self.rng.randint(0, 2))
            if self.rng.random() < 0.3:
                pool.append(self.rng.choice(DEGEN))
            if self.wide:
                pool += self.rng.sample(WIDE, self.rng.randint(1, 2))
            self.pool = pool
            r = self.comp(self.rng.randint(1, self.depth))
            lv = {}
            _leaves(r, lv)
            box = 1
            for lo, hi in lv.values(): box *= hi - lo + 1
            if self.wide:
                if any(hi - lo > 1000 for lo, hi in lv.values()): return r
                continue
            if box <= self.max_box:
                return r
        raise RuntimeError("could not generate a recipe within the box limit")

    def comp(self, depth):
        rng = self.rng
        c = rng.choice(self.classes)
        nk = 1 if c == "Not" else 2 if c == "Imply" else rng.randint(1, self.max_kids)
        kids, ids = [], set()
        tries = 0
        while len(kids) < nk and tries < 20:
            tries += 1
            if depth > 1 and rng.random() < 0.5:
                if self.made and rng.random() < self.share:
                    k = rng.choice(self.made)          # shared sub-proposition (same recipe again)
                else:
                    k = self.comp(depth - 1)
            else:
                k = leaf(rng.choice(self.pool))
            kid = k["id"] if k["id"] else id(k)
            if kid in ids: continue
            ids.add(kid); kids.append(k)
        if c == "Imply" and len(kids) < 2:
            c = "Any"
        ident = ""
        if c != "Not" and rng.random() < self.explicit:
            self.nid += 1
            ident = "N%d" % self.nid
        v, s = 0, 0
        if c == "AtLeast":
            if self.documented:
                v, s = rng.randint(1, len(kids) + 1), rng.choice([0, 1])
            else:
                v, s = rng.randint(*self.values), rng.choice([0, 1, -1])
        elif c == "AtMost":
            v = rng.randint(0, len(kids)) if self.documented else rng.randint(*self.values)
        d = ""
        if c in ("ccAny", "ccXor"):
            # the default alternative is a leaf that cannot go negative (DESIGN observation O4)
            lk = [k["id"] for k in kids if k["c"] == "leaf" and k["lo"] >= 0]
            if lk and rng.random() < 0.7: d = rng.choice(lk)
        f = -1
        if ident and self.prefix and c not in ("ccAny", "ccXor") and rng.random() < self.prefix:
            f = rng.choice([0, 1])
        r = {"c": c, "a": kids, "id": ident, "v": v, "s": s, "d": d, "f": f}
        self.made.append(r)
        return r

def _leaves(r, acc):
    if r["c"] == "leaf": acc[r["id"]] = (r["lo"], r["hi"])
    else:
        for x in r["a"]: _leaves(x, acc)

def features(r):
    """coverage regions hit by a recipe"""
    f = set()
    def rec(x, d):
        if x["c"] == "leaf":
            if x["lo"] < 0: f.add("neg_lower_leaf")
            if (x["lo"], x["hi"]) != (0, 1): f.add("int_leaf")
            if x["lo"] == x["hi"]: f.add("degenerate_leaf")
            if x["hi"] - x["lo"] > 1000: f.add("wide_leaf")
            return d
        if len(x["a"]) >= 4: f.add("kids>=4")
        if x["id"]: f.add("explicit_id")
        if x.get("f", -1) != -1: f.add("prefixed_compound")
        else: f.add("generated_id")
        if x["c"] in ("AtLeast", "AtMost") and (x["v"] > len(x["a"]) or x["v"] < 0): f.add("value_out_of_range")
        if (x["c"] == "AtMost" or (x["c"] == "AtLeast" and (x["s"] == -1 or (x["s"] == 0 and x["v"] <= 0)))) and any(k["c"] != "leaf" for k in x["a"]):
            f.add("neg_over_compound")
        f.add("cls_" + x["c"])
        # children are kept sorted by id: atoms and compounds interleave when a compound id sorts between two atom ids
        order = sorted((k["id"] if (k["c"] == "leaf" or k["id"]) else "VAR", k["c"] == "leaf") for k in x["a"])
        kinds = [o[1] for o in order]
        runs = sum(1 for i in range(1, len(kinds)) if kinds[i] != kinds[i - 1])
        if runs >= 2: f.add("interleaved_ids")
        return max([rec(k, d + 1) for k in x["a"]] or [d + 1])
    depth = rec(r, 0)
    if depth >= 3: f.add("depth>=3")
    seen, shared = {}, [False]
    def sh(x):
        if x["c"] == "leaf": return
        if id(x) in seen: shared[0] = True
        seen[id(x)] = 1
        for k in x["a"]: sh(k)
    sh(r)
    if shared[0]: f.add("shared_sub")
    return f
