"""pytest plugin (-p harness.recorder): the repository's own tests as a trace source.  Public methods are wrapped with a
recorder (nested calls are not recorded); every top-level call becomes a 'light' event: projected receiver, arguments and
projected result.  TLC computes the reference values itself (PuanTrace: EvLight*).  No repository file is touched.
Environment: REC_OUT (ndjson file), REC_OPS (comma separated subset of operations), REC_MAX (events per operation)."""
import functools, json, os, threading
from . import proj

_depth = threading.local()
_counts = {}
_out = None
_ops = set(filter(None, os.environ.get("REC_OPS", "").split(",")))
_max = int(os.environ.get("REC_MAX", "4000"))

def _box_size(lv):
    n = 1
    for v in lv: n *= proj.I(v.bounds.upper) - proj.I(v.bounds.lower) + 1
    return n

def _emit(e):
    global _out
    k = e["op"]
    _counts[k] = _counts.get(k, 0) + 1
    if _counts[k] > _max: return
    if _out is None:
        _out = open(os.environ["REC_OUT"], "a")
    _out.write(json.dumps(e, separators=(",", ":")) + "\n")
    _out.flush()

def _wrap(cls, name, make_event):
    orig = cls.__dict__[name]
    is_prop = isinstance(orig, property)
    fn = orig.fget if is_prop else orig
    @functools.wraps(fn)
    def wrapper(self, *a, **kw):
        d = getattr(_depth, "d", 0)
        if d > 0:
            return fn(self, *a, **kw)
        _depth.d = d + 1
        pre = None
        try:
            try:
                tok = proj.Tok()
                pre = make_event("pre", self, a, kw, None, tok)
            except Exception:
                pre = None
            res = fn(self, *a, **kw)
            if pre is not None:
                try:
                    e = make_event("post", self, a, kw, res, tok, pre)
                    if e is not None: _emit(e)
                except Exception:
                    pass
            return res
        finally:
            _depth.d = d
    setattr(cls, name, property(wrapper) if is_prop else wrapper)

def _small(m, cap=256):
    import puan
    if proj.is_var(m): return False
    lv = proj.leaves(m)
    return _box_size(lv) <= cap and len(m.flatten()) <= 24

def install():
    import puan, puan.logic.plog as pg, puan.ndarray as pnd, numpy
    def ev_evaluate(phase, self, a, kw, res, tok, pre=None):
        if phase == "pre":
            if not _small(self) or not a or not isinstance(a[0], dict): return None
            return {"model": proj.node(self, tok), "interp": proj.pairs_iv(a[0], tok)}
        return dict(pre, op="l_evaluate", res=proj.bounds(res))
    def ev_negate(phase, self, a, kw, res, tok, pre=None):
        if phase == "pre":
            return {"model": proj.node(self, tok)} if _small(self) else None
        if proj.is_var(res): return None
        return dict(pre, op="l_negate", neg=proj.node(res, tok))
    def ev_assume(phase, self, a, kw, res, tok, pre=None):
        if phase == "pre":
            if not _small(self) or not a or not isinstance(a[0], dict): return None
            return {"model": proj.node(self, tok), "dict": proj.pairs_iv(a[0], tok)}
        return dict(pre, op="l_assume", res=proj.node(res, tok))
    def ev_reduce(phase, self, a, kw, res, tok, pre=None):
        if phase == "pre":
            return {"model": proj.node(self, tok)} if _small(self) else None
        return dict(pre, op="l_reduce", res=proj.node(res, tok))
    def ev_errors(phase, self, a, kw, res, tok, pre=None):
        if phase == "pre":
            return {"model": proj.node(self, tok)} if len(self.flatten()) <= 40 else None
        return dict(pre, op="errors", errs=sorted({str(getattr(x, "value", x)) for x in res}))
    def ev_poly(phase, self, a, kw, res, tok, pre=None):
        if phase == "pre":
            if not _small(self, 128): return None
            active = bool(a[0]) if a else bool(kw.get("active", False))
            if (len(a) > 1 and a[1]) or kw.get("reduced"): return None
            return {"model": proj.node(self, tok), "active": active}
        rows, cols = proj.polyhedron(res, tok)
        return dict(pre, op="l_to_poly", rows=rows, cols=cols)
    def ev_compress(phase, self, a, kw, res, tok, pre=None):
        if phase == "pre":
            arr = numpy.asarray(self)
            method = kw.get("method", a[0] if a else "min")
            axis = kw.get("axis", a[1] if len(a) > 1 else None)
            if arr.size == 0 or arr.size > 60 or numpy.abs(arr).max() > 1000: return None
            kind = None
            if not isinstance(axis, int): kind = "flat"
            elif arr.ndim == 2 and axis in (0, 1): kind = "2d%d" % axis
            elif arr.ndim == 3 and axis == 0: kind = "3d0"
            if kind is None: return None
            x = arr.flatten().tolist() if kind == "flat" else arr.tolist()
            return {"kind": kind, "x": [int(v) for v in x] if kind == "flat" else x, "m": method}
        r = numpy.asarray(res)
        def nest(v): return [nest(i) for i in v] if isinstance(v, list) else proj.I(v)
        return {"op": "compress", "kind": pre["kind"], "x": pre["x"], "runs": [{"m": pre["m"], "r": nest(r.tolist())}]}
    table = {"evaluate": (pg.AtLeast, "evaluate", ev_evaluate), "negate": (pg.AtLeast, "negate", ev_negate),
             "assume": (pg.AtLeast, "assume", ev_assume), "reduce": (pg.AtLeast, "reduce", ev_reduce),
             "errors": (pg.AtLeast, "errors", ev_errors), "to_poly": (pg.AtLeast, "to_ge_polyhedron", ev_poly),
             "compress": (pnd.integer_ndarray, "ndint_compress", ev_compress)}
    for k, (cls, name, mk) in table.items():
        if not _ops or k in _ops:
            _wrap(cls, name, mk)
    if (not _ops or "compress" in _ops):
        pnd.ndint_compress = pnd.integer_ndarray.ndint_compress

def pytest_configure(config):
    install()
