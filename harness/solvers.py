"""Solver callables handed to solve()/select().  None of them is trusted: what they received and what they
returned is recorded and re-checked by TLC (C15)."""
import itertools
import numpy

class Capture:
    """records what the library hands to the solver; answers with per-column distinct in-bounds values when it can
    (column j gets lower + (j mod width)), so that any permutation of columns shows in the reported dictionaries"""
    def __init__(self, mode="capture"):
        self.mode = mode
        self.calls = []
    def __call__(self, polyhedron, objectives):
        objs = [numpy.asarray(o).tolist() for o in objectives]
        self.calls.append({"polyhedron": polyhedron, "objectives": objs})
        if self.mode == "raise":
            raise RuntimeError("solver failure requested by the harness")
        out = []
        for k, o in enumerate(objs):
            if self.mode == "none" or (self.mode == "mixed" and k % 2 == 1):
                out.append((None, 0, 4))
                continue
            if self.mode == "exact":
                x, z = exact(polyhedron, o)
                out.append((x, z, 6 if x is not None else 4))
                continue
            vs = list(polyhedron.A.variables)
            x = [int(v.bounds.lower) + (j % (int(v.bounds.upper) - int(v.bounds.lower) + 1)) for j, v in enumerate(vs)]
            # every documented status code comes with a vector: what the solver returned is what is reported
            out.append((numpy.array(x), int(numpy.dot(o, x)), [6, 5, 1, 2, 3, 4][(k + len(vs)) % 6]))
        self.calls[-1]["answers"] = out
        return out

def exact(polyhedron, objective, limit=1 << 16):
    """brute force over the integer box of the polyhedron's column variables: first best point in lexicographic order"""
    A = numpy.asarray(polyhedron.A); b = numpy.asarray(polyhedron.b)
    vs = list(polyhedron.A.variables)
    ranges = [range(int(v.bounds.lower), int(v.bounds.upper) + 1) for v in vs]
    n = 1
    for r in ranges: n *= len(r)
    if n > limit:
        raise ValueError("box too large for the exact solver")
    pts = numpy.array(list(itertools.product(*ranges)), dtype=numpy.int64).reshape(n, len(vs))
    ok = (pts @ A.T >= b).all(axis=1) if A.shape[0] else numpy.ones(n, dtype=bool)
    if not ok.any():
        return None, None
    feas = pts[ok]
    sc = feas @ numpy.asarray(objective, dtype=numpy.int64)
    i = int(numpy.argmax(sc))
    return feas[i], int(sc[i])
