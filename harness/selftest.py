"""Binding demonstration (./check SELFTEST): for every event kind, a handful of events recorded from the real library is
validated twice - unchanged (must be accepted) and with ONE recorded field corrupted (TLC must reject exactly that
event, naming the expected clause).  Also checks that a TLC evaluation error becomes a total verdict."""
import copy, json
from . import core, drivers, props, gen

L = props.LEAF
R = props._R

def _first(evs, op):
    return next(e for e in evs if e["op"] == op)

def cases():
    a, b, c, t = L("a"), L("b"), L("c"), L("t", -1, 2)
    m1 = R("AtLeast", R("Any", a, b, id="N1"), c, t, id="N2", v=2, s=1)
    m2 = R("All", R("Any", a, b, id="B"), c, id="A")
    cfg = props._cc("Cfg", props._cc("ccAny", a, b, c, id="X", d="a"), id="cfg")
    poly = {"rows": [[1, 1, 1], [-1, -2, -1], [0, 1, 0]], "bounds": [[0, 1], [-1, 2]], "k": 0}
    out = []
    def add(name, drv, case, op, mut, clause, pick=None):
        out.append({"name": name, "drv": drv, "case": case, "op": op, "mut": mut, "clause": clause, "pick": pick})
    def flip_first(x):
        """flips the first 0/1 leaf of a nested list in place"""
        if isinstance(x[0], list): return flip_first(x[0])
        x[0] = 1 - x[0]
    def flip_iv(iv): return [1 - iv[0], 1 - iv[1]]
    add("evaluate result bit", drivers.drv_evaluate, {"recipe": m1}, "evaluate",
        lambda e: e["points"][0]["res_all"][0].__setitem__(1, [7, 7]), "val_equal")
    add("polyhedron coefficient", drivers.drv_to_poly, {"recipe": m1}, "to_poly",
        lambda e: e["rows"][0]["a"].__setitem__(0, e["rows"][0]["a"][0] + 5), "iff_top")
    add("polyhedron column id", drivers.drv_to_poly, {"recipe": m1}, "to_poly",
        lambda e: e["cols"][0].__setitem__("id", "zz"), "cols_are_ids")
    add("column bound", drivers.drv_to_poly2, {"recipe": m1}, "to_poly2",
        lambda e: next(c for c in e["cols"] if c["id"] == "t").__setitem__("hi", 1), "cols_bounds")
    add("negated evaluation", drivers.drv_negate, {"recipe": m2}, "negate",
        lambda e: e["points"][0].__setitem__("ev_neg", flip_iv(e["points"][0]["ev_neg"])), "complement")
    add("negated structure", drivers.drv_negate, {"recipe": m2}, "negate",
        lambda e: e["neg"].__setitem__("value", e["neg"]["value"] + 1), "complement_struct")
    add("partial bounds narrowed", drivers.drv_partial, {"recipe": m2, "max_interps": 200}, "partial",
        lambda e: next(p for p in e["points"] if p["res_top"] == [0, 1]).__setitem__("res_all", [[k, [1, 1]] for k, v in next(p for p in e["points"] if p["res_top"] == [0, 1])["res_all"]]), "sound")
    add("tautology flag", drivers.drv_partial, {"recipe": m2}, "flags",
        lambda e: e.__setitem__("taut", not e["taut"]), "taut")
    add("assume evaluation", drivers.drv_assume, {"recipe": m2, "n_dicts": 4}, "assume",
        lambda e: e["points"][0].__setitem__("ev_assumed", [5, 5]), "equiv_union")
    add("reduce leaves a constant", drivers.drv_reduce, {"recipe": m2, "n_dicts": 4}, "reduce",
        lambda e: e["res"].__setitem__("lo", 1) or e["res"].__setitem__("hi", 1), "no_const_inside")
    bad = R("All", R("Any", L("a", 0, 3), b, id="B"), R("Any", L("a", 1, 2), c, id="C"))
    add("errors() silenced", drivers.drv_errors, {"recipe": bad}, "errors", lambda e: e.__setitem__("errs", []), "accepted_welldef")
    add("truth table bit", drivers.drv_build, {"recipe": R("Xor", a, b, c), "vias": ["ctor"]}, "build",
        lambda e: e["table"][3].__setitem__("ev", flip_iv(e["table"][3]["ev"])), "truthfn")
    add("json evaluation", drivers.drv_json, {"recipe": m2}, "json",
        lambda e: e["points"][1].__setitem__("ev_back", flip_iv(e["points"][1]["ev_back"])), "equiv")
    add("json id dropped", drivers.drv_json, {"recipe": m2}, "json", lambda e: e["jdoc"].__setitem__("id", ""), "ids_explicit")
    add("b64 structure", drivers.drv_b64, {"recipe": m2}, "b64", lambda e: e["back"].__setitem__("value", 9), "struct_same")
    add("b64 polyhedron entry", drivers.drv_b64, {"recipe": cfg}, "b64poly",
        lambda e: e["p_after"]["dpv"].__setitem__(0, 5), "poly_struct_same")
    add("forced column value", drivers.drv_poly_reduce, poly, "reduce_oneshot",
        lambda e: (e["fixed"].__setitem__(0, True), e["val"].__setitem__(0, -1)), "cols_forced")
    add("loop hook matrix", drivers.drv_poly_reduce, {"rows": [[1, 1, 1], [2, 1, 1], [0, 1, 0]], "bounds": [[0, 1], [0, 1]], "k": 0}, "reduce_oneshot",
        lambda e: e["steps"][0]["rows"][0].__setitem__("b", e["steps"][0]["rows"][0]["b"] + 3), "loop_inv")
    add("tightened bound cuts", drivers.drv_tighten, poly, "tighten",
        lambda e: e["tight"][0].__setitem__(1, e["tight"][0][1] + 2), "contain")
    add("row bound", drivers.drv_tighten, poly, "tighten", lambda e: e["rowb"][0].__setitem__(0, e["rowb"][0][0] - 1), "rowb_exact")
    add("classification bit", drivers.drv_classify, dict(poly, points=[[1, 1], [[0, 0], [1, 2]], [[[0, 0], [1, 1]], [[1, 0], [0, 2]]]]), "classify",
        lambda e: e.__setitem__("sat", 1 - e["sat"]), "sat_value")
    add("construct entry", drivers.drv_bridge, {"vars": [{"id": "a", "lo": 0, "hi": 1}, {"id": "n7", "lo": -3, "hi": 4}], "dict": {"a": 5}, "list": ["n7"], "bits": [1, 0, 1]}, "construct",
        lambda e: e["res"].__setitem__(1, [0, 0]), "construct")
    add("shadow weight", drivers.drv_compress, {"x": [[1, 2, 0], [0, 0, 2]], "kind": "2d0"}, "compress",
        lambda e: next(r for r in e["runs"] if r["m"] == "shadow")["r"].__setitem__(2, 2), "shadow:dominance")
    add("many clauses at once (pretty-printed verdict)", drivers.drv_compress, {"x": [[1, 2, 0, -3], [0, 0, 2, 5]], "kind": "2d0"}, "compress",
        lambda e: [r["r"].reverse() for r in e["runs"]], "shadow:dominance")
    sel = {"recipe": cfg, "prios_list": [[{"b": 1}, {"c": -1}]], "solvers": ["capture"], "leaf_opts": [False]}
    add("objective entries swapped", drivers.drv_select, sel, "select",
        lambda e: e["received"]["objectives"][0].reverse(), "ranks")
    add("reported dictionary shifted", drivers.drv_select, sel, "select",
        lambda e: e["reported"][0][0].__setitem__(1, e["reported"][0][0][1] + 1), "ids_aligned")
    hist = {"handles": {"h1": m2, "h2": cfg}, "calls": [{"h": "h1", "op": "reduce", "d": {}, "rule": None}, {"h": "h2", "op": "cfg_poly", "d": {}, "rule": None}]}
    add("state change after a call", drivers.drv_history, hist, "history",
        lambda e: e["steps"][0]["after"][0][1].__setitem__("hi", 0), "store_unchanged")
    add("unexplained overwrite hook", drivers.drv_history, hist, "history",
        lambda e: e["steps"][1]["hooks"].append({"id": "X", "new": [0, 0]}), "no_unexplained_overwrite")
    add("result differs from fresh", drivers.drv_history, hist, "history",
        lambda e: e["steps"][1]["res"]["dpv"].__setitem__(0, 9), "result_as_fresh")
    add("objective level structure", drivers.drv_select, sel, "select",
        lambda e: e["received"]["objectives"][0].__setitem__(0, 0), "objective_levels")
    add("default priority tag", drivers.drv_select, sel, "select",
        lambda e: (e["received"]["dpv"].__setitem__(0, -3), e["direct"]["dpv"].__setitem__(0, -3)), "dpv_expected")
    G = R("Any", b, c)
    sh = {"first": props._cc("Cfg", props._cc("ccAny", a, G, id="X", d="a"), id="c1"), "second": props._cc("Cfg", props._cc("ccAny", L("x"), G, id="Y", d="x"), id="c2")}
    add("first model changed by building the second", drivers.drv_shared_build, sh, "shared_build",
        lambda e: e["first_after"]["default_prios"][0].__setitem__(1, -9), "store_unchanged")
    add("shared build differs from fresh", drivers.drv_shared_build, sh, "shared_build",
        lambda e: e["second"]["cfg_poly"]["dpv"].__setitem__(0, -9), "result_as_fresh")
    xp = {"rows": [[1, 1, 2, 0], [0, -1, 1, 1]], "bounds": [[0, 1], [0, 2], [0, 1]], "k": 0, "mask": [1, 0, 0], "patterns": [[1, 1, 0], [0, 1, 1]]}
    add("neglected support vector", drivers.drv_x_poly, xp, "x_neglect", lambda e: e["res"][0].__setitem__("b", e["res"][0]["b"] + 1), "neglect_exact")
    add("receiver after neglect", drivers.drv_x_poly, xp, "x_neglect", lambda e: e["recv_after"][0]["a"].__setitem__(1, 7), "neglect_receiver")
    add("neglectable column", drivers.drv_x_poly, xp, "x_neglectable", lambda e: e["res"].__setitem__(0, 1 - e["res"][0]), "neglectable")
    add("row stretch fraction", drivers.drv_x_poly, xp, "x_row_stretch", lambda e: e["stretch"][0].__setitem__(0, e["stretch"][0][0] + 1), "row_stretch")
    add("text line dropped", drivers.drv_x_model, {"recipe": m2}, "x_to_text", lambda e: (e["lines"].pop(), e["raw"].pop()), "text_lines")
    add("text lines out of order", drivers.drv_x_model, {"recipe": m2}, "x_to_text", lambda e: e["raw"].reverse(), "text_sorted")
    add("edited polyhedron packs stale", drivers.drv_b64, {"recipe": cfg}, "b64poly",
        lambda e: e["p_again"]["rows"][0].__setitem__("b", e["p_again"]["rows"][0]["b"] + 1), "poly_again_same")
    hist2 = {"handles": {"h1": m2, "h2": cfg}, "calls": [{"h": "h2", "op": "reload_b64", "d": {}, "rule": None}, {"h": "h2", "op": "cfg_poly", "d": {}, "rule": None}]}
    add("unpacked object differs from the packed one", drivers.drv_history, hist2, "history",
        lambda e: [x for x in e["steps"][0]["after"] if x[0] == "h2"][0][1].__setitem__("value", 7), "store_unchanged")
    add("answer after re-loading differs from fresh", drivers.drv_history, hist2, "history",
        lambda e: e["steps"][1]["res"]["dpv"].__setitem__(0, 9), "result_as_fresh")
    ph = {"init": props.POLY_CATALOG[1], "calls": ["row_bounds", "reduce_cols_q", "sat", "reduce_both", "tighten"], "k": 0}
    add("polyhedron history: row bound of a later step", drivers.drv_poly_history, ph, "poly_history",
        lambda e: e["steps"][0]["res"][0].__setitem__(0, e["steps"][0]["res"][0][0] + 1), "ph_rowb")
    add("polyhedron history: receiver changed by a call made for its result", drivers.drv_poly_history, ph, "poly_history",
        lambda e: e["steps"][1]["after"]["rows"][0].__setitem__("b", e["steps"][1]["after"]["rows"][0]["b"] + 1), "ph_receiver_unchanged")
    add("polyhedron history: classification after other calls", drivers.drv_poly_history, ph, "poly_history",
        lambda e: flip_first(e["steps"][2]["res"]), "ph_sat")
    add("polyhedron history: reduction result is not the projection", drivers.drv_poly_history, ph, "poly_history",
        lambda e: e["steps"][3]["new"]["rows"].append({"b": 9, "a": [0] * len(e["steps"][3]["new"]["cols"])}) if e["steps"][3]["new"]["cols"] else e["steps"][3]["fixed"].__setitem__(0, False), "ph_projection")
    add("classification of a 4-D stack", drivers.drv_classify, dict(poly, k=3, points=[[[0, 0], [1, 2]], [[1, 1], [0, -1]]]), "classify",
        lambda e: flip_first(e["rowsep"]), "rowsep_value", pick=lambda e: e.get("ndim") == 4)
    hist3 = {"handles": {"h1": m2, "h2": cfg}, "calls": [{"h": "h2", "op": "builtin", "d": {}, "rule": None}, {"h": "h2", "op": "to_b64", "d": {}, "rule": None}]}
    add("packing fails after the library's own solver was used", drivers.drv_history, hist3, "history",
        lambda e: e["steps"][1].__setitem__("res", "0" * 24), "result_as_fresh")
    add("malformed event (evaluation error)", drivers.drv_errors, {"recipe": m2}, "errors",
        lambda e: e["model"].__setitem__("kids", 3), "spec_eval_error")
    return out

def run(ctx):
    cs = cases()
    expect = {}
    for c in cs:
        case = dict(c["case"])
        if c["drv"] is drivers.drv_history:
            ref = core._safe_call(drivers.drv_reference, case)
            case["refs"] = ref[0]["res"]
        evs = core._safe_call(c["drv"], case)
        if any(e["op"] == "exc" for e in evs):
            raise core.Machinery("selftest driver failed for %s: %s" % (c["name"], evs))
        good = copy.deepcopy(next(e for e in evs if e["op"] == c["op"] and (c.get("pick") is None or c["pick"](e))))
        bad = copy.deepcopy(good)
        c["mut"](bad)
        t1 = ctx.add_event(good, {"selftest": c["name"], "variant": "unchanged"})
        t2 = ctx.add_event(bad, {"selftest": c["name"], "variant": "corrupted"})
        expect[t1] = None
        expect[t2] = c["clause"]
    ctx.validate(shards=4)
    failures = []
    for tid, clause in expect.items():
        got = ctx.rejects.get(tid, [])
        name = ctx.cases[tid]["selftest"]
        if clause is None and got:
            failures.append("unchanged event of '%s' was rejected: %s" % (name, got))
        if clause is not None and clause not in got:
            failures.append("corrupted event of '%s' was not rejected with %s (got %s)" % (name, clause, got))
    n = len(cs)
    for f in failures: print("SELFTEST-FAIL", f)
    print("SELFTEST %d corruptions, %d as expected" % (n, n - len([f for f in failures if "corrupted" in f])))
    return 2 if failures else 0
