"""Minimal parser for TLA+ values as printed by TLC (-dump / -simulate file= / PrintT).
Supports: ints, strings, TRUE/FALSE, sets {..}, tuples <<..>>, records [a |-> v, ...],
functions (k :> v @@ k2 :> v2), and the empty record/function.  Returns Python values:
set -> frozenset? (unhashable members possible) so sets become lists tagged ('set', [...])."""
import re

class P:
    def __init__(self, s): self.s = s; self.i = 0
    def ws(self):
        while self.i < len(self.s) and self.s[self.i] in " \t\r\n": self.i += 1
    def peek(self, k=1): self.ws(); return self.s[self.i:self.i+k]
    def eat(self, tok):
        self.ws()
        if not self.s.startswith(tok, self.i): raise ValueError(f"expected {tok!r} at {self.i}: {self.s[self.i:self.i+40]!r}")
        self.i += len(tok)
    def value(self):
        self.ws(); c = self.s[self.i]
        if c == '"':
            j = self.i + 1; out = []
            while self.s[j] != '"':
                if self.s[j] == '\\': j += 1
                out.append(self.s[j]); j += 1
            self.i = j + 1; return "".join(out)
        if c == '{':
            self.eat('{'); items = []
            if self.peek() != '}':
                while True:
                    items.append(self.value())
                    if self.peek() == ',': self.eat(','); continue
                    break
            self.eat('}'); return {"$set": items}
        if self.s.startswith('<<', self.i):
            self.eat('<<'); items = []
            if self.peek(2) != '>>':
                while True:
                    items.append(self.value())
                    if self.peek() == ',': self.eat(','); continue
                    break
            self.eat('>>'); return items
        if c == '[':
            self.eat('['); rec = {}
            if self.peek() != ']':
                while True:
                    self.ws(); m = re.compile(r'[A-Za-z_][A-Za-z0-9_]*').match(self.s, self.i)
                    name = m.group(0); self.i = m.end(); self.eat('|->'); rec[name] = self.value()
                    if self.peek() == ',': self.eat(','); continue
                    break
            self.eat(']'); return rec
        if c == '(':
            self.eat('('); fn = {}
            while True:
                k = self.value(); self.eat(':>'); v = self.value(); fn[k if isinstance(k,(str,int)) else repr(k)] = v
                if self.peek(2) == '@@': self.eat('@@'); continue
                break
            self.eat(')'); return fn
        m = re.compile(r'-?\d+').match(self.s, self.i)
        if m: self.i = m.end(); return int(m.group(0))
        for lit, val in (("TRUE", True), ("FALSE", False)):
            if self.s.startswith(lit, self.i): self.i += len(lit); return val
        raise ValueError(f"cannot parse at {self.i}: {self.s[self.i:self.i+40]!r}")

def parse_value(s): 
    p = P(s); v = p.value(); return v

def parse_dump(path):
    """yield dict var->value for each 'State N:' block of a TLC -dump file"""
    txt = open(path).read()
    for block in re.split(r'\nState \d+:\n|^State \d+:\n', txt):
        block = block.strip()
        if not block: continue
        st = {}
        # conjuncts start with '/\ name = '
        parts = re.split(r'(?m)^/\\ ', block)
        for part in parts:
            part = part.strip()
            if not part: continue
            name, rest = part.split(' = ', 1)
            st[name.strip()] = parse_value(rest)
        yield st
