"""Running TLC / SANY from the harness: model-checking configs generated from Python dicts,
state dumps, simulation traces, PrintT verdict lines."""
import os, re, subprocess, time, shutil
from . import tlaval

SPEC_DIR = os.path.join(os.path.dirname(os.path.dirname(os.path.abspath(__file__))), "spec")
JAR = "/opt/veriftools/tla/tla2tools.jar"

class TLCError(Exception):
    pass

def tla(v):
    """Python value -> TLA+ expression text."""
    if isinstance(v, bool): return "TRUE" if v else "FALSE"
    if isinstance(v, int): return str(v) if v >= 0 else f"({v})"
    if isinstance(v, str): return '"' + v.replace("\\", "\\\\").replace('"', '\\"') + '"'
    if isinstance(v, (list, tuple)): return "<<" + ", ".join(tla(x) for x in v) + ">>"
    if isinstance(v, (set, frozenset)): return "{" + ", ".join(sorted(tla(x) for x in v)) + "}"
    if isinstance(v, dict):
        if "$set" in v: return "{" + ", ".join(tla(x) for x in v["$set"]) + "}"
        if "$raw" in v: return v["$raw"]
        if not v: return "<<>>"
        return "[" + ", ".join(f"{k} |-> {tla(x)}" for k, x in v.items()) + "]"
    raise TypeError(f"cannot render {v!r}")

def raw(text):
    return {"$raw": text}

def _copy_specs(workdir):
    os.makedirs(workdir, exist_ok=True)
    for root, _, files in os.walk(SPEC_DIR):
        for f in files:
            if f.endswith(".tla"):
                shutil.copy(os.path.join(root, f), os.path.join(workdir, f))

def java_cmd(workdir, mc, workers, extra, props=None):
    cmd = ["java", "-XX:+UseParallelGC", "-Xss16m"]
    for k, v in (props or {}).items():
        cmd.append(f"-D{k}={v}")
    cmd += ["-cp", JAR + ":/opt/veriftools/tla/CommunityModules-deps.jar:/opt/veriftools/tla/CommunityModules.jar",
            "tlc2.TLC", "-workers", str(workers), "-metadir", os.path.join(workdir, "md_" + mc), "-noGenerateSpecTE"]
    return cmd + extra + [mc + ".tla"]

_TLC_BIN = shutil.which("tlc")

def run_tlc(workdir, mc, workers=16, extra=(), env=None, timeout=3600):
    """Runs `tlc` on workdir/mc.tla (+ .cfg).  Returns (returncode, stdout, wall)."""
    cmd = [_TLC_BIN, "-workers", str(workers), "-metadir", os.path.join(workdir, "md_" + mc),
           "-noGenerateSpecTE"] + list(extra) + [mc + ".tla"]
    e = dict(os.environ)
    if env: e.update(env)
    t0 = time.time()
    try:
        r = subprocess.run(cmd, cwd=workdir, env=e, stdout=subprocess.PIPE, stderr=subprocess.STDOUT,
                           text=True, timeout=timeout)
    except subprocess.TimeoutExpired as ex:
        raise TLCError(f"TLC timed out after {timeout}s on {mc}") from ex
    finally:
        shutil.rmtree(os.path.join(workdir, "md_" + mc), ignore_errors=True)
    return r.returncode, r.stdout, time.time() - t0

_STATS = re.compile(r"(\d+) states generated, (\d+) distinct states found, (\d+) states left on queue")
_DEPTH = re.compile(r"The depth of the complete state graph search is (\d+)")

def parse_stats(out):
    m = None
    for m in _STATS.finditer(out):
        pass
    d = _DEPTH.search(out)
    return {"generated": int(m.group(1)) if m else 0, "distinct": int(m.group(2)) if m else 0,
            "depth": int(d.group(1)) if d else 0}

def model_check(workdir, base_module, constants, invariants=(), properties=(), spec="Spec",
                constraint=None, dump=False, workers=16, name="MC", extra_defs="", coverage=False,
                timeout=3600, view=None, simulate=None):
    """Generate name.tla/.cfg extending base_module and run TLC.
    constants: dict name -> python value (rendered with tla()) or raw(text).
    Returns dict(ok, stats, violated, out, dump_path, wall)."""
    _copy_specs(workdir)
    lines = [f"---- MODULE {name} ----", f"EXTENDS {base_module}"]
    cfg = ["CONSTANTS"]
    for k, v in constants.items():
        lines.append(f"c_{k} == {tla(v)}")
        cfg.append(f" {k} <- c_{k}")
    if extra_defs: lines.append(extra_defs)
    lines.append("====")
    cfg.append(f"SPECIFICATION {spec}")
    cfg.append("CHECK_DEADLOCK FALSE")
    for i in invariants: cfg.append(f"INVARIANT {i}")
    for p in properties: cfg.append(f"PROPERTY {p}")
    if constraint: cfg.append(f"CONSTRAINT {constraint}")
    if view: cfg.append(f"VIEW {view}")
    open(os.path.join(workdir, name + ".tla"), "w").write("\n".join(lines) + "\n")
    open(os.path.join(workdir, name + ".cfg"), "w").write("\n".join(cfg) + "\n")
    extra = []
    dump_path = None
    if dump:
        dump_path = os.path.join(workdir, name + "_states")
        extra += ["-dump", dump_path]
        dump_path += ".dump"
    if coverage: extra += ["-coverage", "1"]
    if simulate: extra += ["-simulate", simulate]
    rc, out, wall = run_tlc(workdir, name, workers=workers, extra=extra, timeout=timeout)
    stats = parse_stats(out)
    violated = None
    m = re.search(r"Invariant (\S+) is violated", out) or re.search(r"Action property (\S+) is violated", out) \
        or re.search(r"Temporal properties were violated", out)
    if m: violated = m.group(1) if m.groups() else "temporal"
    ok = ("Model checking completed. No error has been found." in out) or (simulate is not None and violated is None and "Error:" not in out)
    if not ok and violated is None:
        raise TLCError("TLC failed on %s:\n%s" % (name, out[-4000:]))
    return {"ok": ok, "stats": stats, "violated": violated, "out": out, "dump_path": dump_path, "wall": wall}

_CONJ = re.compile(r"(?m)^/\\ ")

def dump_states(path, only=None):
    """Yield dict var -> python value for every state of a -dump file (optionally only some variables)."""
    with open(path) as f:
        txt = f.read()
    for block in re.split(r"(?m)^State \d+:\n", txt):
        block = block.strip()
        if not block: continue
        st = {}
        for part in _CONJ.split(block):
            part = part.strip()
            if not part: continue
            name, rest = part.split(" = ", 1)
            name = name.strip()
            if only is None or name in only:
                st[name] = tlaval.parse_value(rest)
        yield st

_PRINT = re.compile(r'^<<"(VERDICT|REJECT|KNOWN|INFO|DONE)"')

def print_lines(out):
    """PrintT lines of the form <<"TAG", ...>> (bracket matched, may span lines)."""
    res = []
    i = 0
    while True:
        m = re.search(r'<<\s*"(?:REJECT|KNOWN|INFO|DONE|OK)"', out[i:])       # long values are pretty printed: << "REJECT",\n 1,\n {...} >>
        if not m: break
        s = i + m.start()
        p = tlaval.P(out); p.i = s
        try:
            v = p.value()
        except Exception:
            i = s + 2; continue
        res.append(v); i = p.i
    return res


def sim_final_states(prefix, only=None):
    """final state (dict var -> value) of every behaviour file written by `-simulate file=<prefix>,num=N`"""
    import glob
    out = []
    for f in sorted(glob.glob(prefix + "_*")):
        txt = open(f).read()
        blocks = re.split(r"(?m)^STATE_\d+ ==\s*$", txt)
        if len(blocks) < 2: continue
        block = blocks[-1].split("\n====")[0].strip()
        st = {}
        for part in _CONJ.split(block):
            part = part.strip()
            if not part or " = " not in part: continue
            name, rest = part.split(" = ", 1)
            if only is None or name.strip() in only:
                st[name.strip()] = tlaval.parse_value(rest)
        out.append(st)
        os.remove(f)
    return out
