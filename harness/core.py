"""Shared machinery of every property check: work directory, P1 (TLC on the specification),
P2 (drive the implementation, record events), P3 (TLC validates the recorded events), P4 (verdicts,
known findings, replay files, evidence)."""
import hashlib, json, multiprocessing, os, random, shutil, sys, time, traceback
from concurrent.futures import ThreadPoolExecutor
from . import tlc, tlaval

VERIF = os.path.dirname(os.path.dirname(os.path.abspath(__file__)))
REPO = os.environ.get("PUAN_REPO", "/repo")
NCPU = min(16, os.cpu_count() or 4)

class Machinery(Exception):
    """failure of the checking machinery itself (exit 2), never a verdict about the code"""

class Ctx:
    def __init__(self, pid, tier, seed, replaying=False):
        self.pid, self.tier, self.seed = pid, tier, seed
        self.replaying = replaying
        self.t0 = time.time()
        self.work = os.path.join(VERIF, ".work", "%s.%d" % (pid, os.getpid()))
        shutil.rmtree(self.work, ignore_errors=True)
        os.makedirs(self.work)
        if not replaying:
            shutil.rmtree(os.path.join(VERIF, "replays", pid), ignore_errors=True)     # replay files of earlier runs are stale
        self.rng = random.Random(seed)
        self.p1 = []            # model checking runs on the specification
        self.events = []        # recorded implementation events (dicts with tid)
        self.cases = {}         # tid -> case (what is needed to re-execute)
        self.rejects = {}       # tid -> sorted clause list
        self.known = {}         # tid -> signature
        self.notes = []
        self.regions = {}
        self.p3_states = 0
        self.p3_wall = 0.0
        self.infos = []

    # ------------------------------------------------------------------ P1
    def model_check(self, base, constants, invariants=(), properties=(), name="MC", dump=None, **kw):
        d = os.path.join(self.work, "p1_" + name)
        r = tlc.model_check(d, base, constants, invariants=invariants, properties=properties,
                            name=name, dump=bool(dump), **kw)
        rec = {"module": base, "config": name, "constants": {k: (tlc.tla(v) if len(tlc.tla(v)) <= 400 else tlc.tla(v)[:400] + " ...") for k, v in constants.items()},
               "invariants": list(invariants), "properties": list(properties),
               "states": r["stats"]["generated"], "distinct": r["stats"]["distinct"], "depth": r["stats"]["depth"],
               "wall_s": round(r["wall"], 1), "ok": r["ok"], "violated": r["violated"]}
        self.p1.append(rec)
        if not r["ok"]:
            # the specification itself violates its invariant: the oracle is broken, not the code
            raise Machinery("specification check %s/%s failed: %s\n%s" % (base, name, r["violated"], r["out"][-3000:]))
        r["rec"] = rec
        return r

    def lemma(self, name, cinit=None, timeout=900, init_bad="Init"):
        """an unbounded-integer lemma of the specification (spec/lemmas/<name>.tla) discharged by Apalache: Inv must hold,
        the negative control InvBad must be refuted.  A failure is a failure of the specification, not of the code."""
        import subprocess
        d = os.path.join(self.work, "apa_" + name)
        os.makedirs(d, exist_ok=True)
        src = os.path.join(tlc.SPEC_DIR, "lemmas", name + ".tla")
        res = {}
        t0 = time.time()
        for inv, want, init in (("Inv", "OK", "Init"), ("InvBad", "ERROR", init_bad)):
            cmd = ["apalache-mc", "check", "--init=" + init, "--inv=" + inv, "--length=0", "--out-dir=" + d] + (["--cinit=" + cinit] if cinit else []) + [src]
            try:
                r = subprocess.run(cmd, cwd=d, stdout=subprocess.PIPE, stderr=subprocess.STDOUT, text=True, timeout=timeout)
                out = r.stdout
            except subprocess.TimeoutExpired:
                out = "TIMEOUT"
            res[inv] = "OK" if "EXITCODE: OK" in out else ("ERROR" if "EXITCODE: ERROR" in out else "UNKNOWN")
            if res[inv] != want:
                raise Machinery("lemma %s: %s is %s (expected %s)\n%s" % (name, inv, res[inv], want, out[-1500:]))
        self.p1.append({"module": "lemmas/" + name, "config": "apalache check --length=0 (unbounded integers)", "constants": {},
                        "invariants": ["Inv (holds)", "InvBad (negative control, refuted)"], "properties": [], "states": 1, "distinct": 1, "depth": 0,
                        "wall_s": round(time.time() - t0, 1), "ok": True, "violated": None})
        shutil.rmtree(d, ignore_errors=True)

    def dump_values(self, r, var):
        vals = []
        seen = set()
        for st in tlc.dump_states(r["dump_path"], only={var}):
            v = st[var]
            key = json.dumps(v, sort_keys=True)
            if key not in seen:
                seen.add(key); vals.append(v)
        os.remove(r["dump_path"])
        vals.sort(key=lambda v: json.dumps(v, sort_keys=True))     # TLC's dump order depends on worker scheduling
        return vals

    # ------------------------------------------------------------------ P2
    def pmap_fresh(self, fn, items, procs=NCPU, batch=8):
        """like pmap, but every item runs in its own process forked from this (pristine) one; results are returned, not recorded"""
        items = list(items)
        # batch: items per pristine grandchild
        groups = [items[i:i + batch] for i in range(0, len(items), batch)]
        ctx = multiprocessing.get_context("fork")
        with ctx.Pool(procs) as pool:          # the pool workers never call the library themselves: each batch runs in a grandchild
            res = pool.map(_FreshCall(fn), groups, chunksize=max(1, len(groups) // (procs * 16)))
        return [r for g in res for r in g]

    def pmap(self, fn, items, procs=NCPU):
        """run fn(case) -> [events] over items in forked worker processes (fresh objects per case)"""
        items = list(items)
        if not items: return []
        _t = time.time()
        if procs <= 1 or len(items) < 8:
            out = [_safe_call(fn, it) for it in items]
        else:
            ctx = multiprocessing.get_context("fork")
            with ctx.Pool(procs) as pool:
                out = pool.map(_SafeCall(fn), items, chunksize=max(1, len(items) // (procs * 8)))
        n = 0
        for case, evs in zip(items, out):
            for e in evs:
                self.add_event(e, case); n += 1
        self.p2_wall = getattr(self, "p2_wall", 0.0) + time.time() - _t
        return n

    def add_event(self, e, case):
        tid = len(self.events) + 1
        e = dict(e); e["tid"] = tid
        self.events.append(e)
        self.cases[tid] = case
        return tid

    def region(self, name, k=1):
        self.regions[name] = self.regions.get(name, 0) + k

    # ------------------------------------------------------------------ P3
    def validate(self, events=None, shards=NCPU, label="trace"):
        events = self.events if events is None else events
        if not events:
            raise Machinery("no events recorded: nothing was validated")
        shards = max(1, min(shards, (len(events) + 199) // 200))
        d = os.path.join(self.work, "p3_" + label)
        tlc._copy_specs(d)
        shutil.copy(os.path.join(tlc.SPEC_DIR, "PuanTrace.cfg"), os.path.join(d, "PuanTrace.cfg"))
        # largest events first, round robin: balances shards
        sizes = [len(json.dumps(e, separators=(",", ":"))) for e in events]
        order = sorted(range(len(events)), key=lambda i: -sizes[i])
        files = []
        for s in range(shards):
            p = os.path.join(d, "trace_%d.ndjson" % s)
            with open(p, "w") as f:
                for i in order[s::shards]:
                    f.write(json.dumps(events[i], separators=(",", ":")) + "\n")
            files.append((s, p, len(order[s::shards])))
        t0 = time.time()
        def run(arg):
            s, p, n = arg
            sd = os.path.join(d, "s%d" % s)
            shutil.rmtree(sd, ignore_errors=True)
            os.makedirs(sd)
            for f in os.listdir(d):
                if f.endswith(".tla") or f.endswith(".cfg"):
                    os.link(os.path.join(d, f), os.path.join(sd, f))
            rc, out, wall = tlc.run_tlc(sd, "PuanTrace", workers=1, env={"TRACE_FILE": p,
                                        "JAVA_TOOL_OPTIONS": "-Xss64m -Xmx3g -XX:ParallelGCThreads=2 -XX:CICompilerCount=2"}, timeout=7200)
            return s, n, rc, out
        def run_total(arg):
            """total verdicts: an event on which TLC cannot even evaluate the relation (the recorded data does not have
            the shape the specification's operators expect) is unexplainable by the specification: it is rejected with
            clause spec_eval_error; the events before it keep the verdicts TLC already printed, the events after it are
            validated by a further TLC run (so the cost stays linear)"""
            import re as _re
            s, p, n = arg
            bad, outs, done = [], [], 0
            for attempt in range(400):
                remaining = n - done
                if remaining <= 0:
                    break
                s_, n_, rc, out = run((s, p, remaining))
                shutil.rmtree(os.path.join(d, "s%d" % s), ignore_errors=True)
                if "Model checking completed. No error has been found." in out:
                    if tlc.parse_stats(out)["distinct"] != remaining + 1:      # every line must have been consumed
                        return s, n, rc, out, bad, False
                    outs.append(out); done = n
                    break
                ls = _re.findall(r"(?m)^l = (\d+)$", out)
                if "The error occurred when TLC was evaluating" not in out and "TLC threw an unexpected exception" not in out or not ls:
                    return s, n, rc, out, bad, False
                k = int(ls[-1])                      # the event at this position of the current shard file raised the error
                lines = open(p).read().splitlines()
                if k < 1 or k > len(lines):
                    return s, n, rc, out, bad, False
                ev = json.loads(lines[k - 1])
                i = out.find("Error:")
                bad.append((ev["tid"], out[i:i + 300].replace("\n", " ")))
                outs.append(out)                     # verdict lines of the events before position k are in this output
                done += k
                open(p, "w").write("\n".join(lines[k:]) + ("\n" if lines[k:] else ""))
            return s, n, 0, "\n".join(outs), bad, done >= n
        with ThreadPoolExecutor(max_workers=shards) as ex:
            results = list(ex.map(run_total, files))
        self.p3_wall += time.time() - t0
        for s, n, rc, out, bad, complete in results:
            for tid, msg in bad:
                self.rejects[tid] = ["spec_eval_error"]
                self.notes.append("event %d: TLC could not evaluate the relation: %s" % (tid, msg))
            if not complete:
                i = out.find("Error:")
                raise Machinery("trace validation (shard %d, %d events) did not complete:\n%s" % (s, n, out[i:i + 2500] if i >= 0 else out[-3000:]))
            st = {"distinct": n + 1}
            self.p3_states += st["distinct"]
            parsed = tlc.print_lines(out)
            import re as _re2
            raw = len(_re2.findall(r'<<\s*"(?:REJECT|KNOWN|INFO)"', out))
            if raw != sum(1 for v in parsed if v[0] in ("REJECT", "KNOWN", "INFO")):
                raise Machinery("trace validation (shard %d): %d verdict lines printed by TLC, %d parsed" % (s, raw, len(parsed)))
            for v in parsed:
                if v[0] == "REJECT":
                    self.rejects[v[1]] = sorted(v[2]["$set"])
                elif v[0] == "KNOWN":
                    self.known[v[1]] = v[2]
                elif v[0] == "INFO":
                    self.infos.append(v[1:])
        shutil.rmtree(d, ignore_errors=True)
        return self.rejects

    # ------------------------------------------------------------------ P4
    def close(self):
        shutil.rmtree(self.work, ignore_errors=True)
        try:
            os.rmdir(os.path.join(VERIF, ".work"))
        except OSError:
            pass

class _FreshCall:
    """run fn(item) in a child forked for this item only and return its result"""
    def __init__(self, fn): self.fn = fn
    def __call__(self, item):
        import pickle
        r, w = os.pipe()
        pid = os.fork()
        if pid == 0:
            try:
                os.close(r)
                data = pickle.dumps([_safe_call(self.fn, it) for it in item])
                with os.fdopen(w, "wb") as f:
                    f.write(data)
            finally:
                os._exit(0)
        os.close(w)
        with os.fdopen(r, "rb") as f:
            data = f.read()
        os.waitpid(pid, 0)
        if not data:
            return [[{"op": "exc", "exc": "ChildDied", "msg": "the forked child produced no result", "where": ""}] for _ in item]
        return pickle.loads(data)

class _SafeCall:
    def __init__(self, fn): self.fn = fn
    def __call__(self, item): return _safe_call(self.fn, item)

def _safe_call(fn, item):
    try:
        return fn(item)
    except (KeyboardInterrupt, SystemExit):
        raise
    except BaseException as ex:  # the implementation raised where the driver expected a result (pyo3 panics are BaseExceptions)
        return [{"op": "exc", "exc": type(ex).__name__, "msg": str(ex)[:200].encode("ascii", "replace").decode(),
                 "where": traceback.format_exc(limit=3)[-400:].encode("ascii", "replace").decode()}]

def sha(obj):
    return hashlib.sha256(json.dumps(obj, sort_keys=True, default=str).encode()).hexdigest()[:16]
