"""Projection pi: real puan objects -> the abstract vocabulary of the TLA+ specification (JSON-able).
Reads public attributes only.  This is the only place where Python 'understands' objects."""
import re
import numpy

_ALNUM = re.compile(r"^[A-Za-z0-9_]{1,24}$")
_SHA = re.compile(r"^VAR[0-9a-f]{64}$")

class Tok:
    """Injective id -> ASCII token map.  Uses a Python dict, so token equality IS the ==/hash
    equality the library's own dict look-ups use."""
    def __init__(self):
        self.m = {}
        self.used = set()
        self.rev = {}
    def __call__(self, ident):
        try:
            if ident in self.m:
                return self.m[ident]
        except TypeError:
            ident = repr(ident)
            if ident in self.m:
                return self.m[ident]
        if isinstance(ident, str) and _ALNUM.match(ident):
            base = ident
        elif isinstance(ident, str) and _SHA.match(ident):
            base = "V" + ident[3:13]
        elif isinstance(ident, (int, numpy.integer)) and not isinstance(ident, bool):
            base = "i%d" % int(ident) if int(ident) >= 0 else "im%d" % -int(ident)
        else:
            base = "u" + "".join("%02x" % (ord(c) % 256) for c in str(ident))[:20]
        t, k = base, 1
        while t in self.used:
            k += 1
            t = "%s_%d" % (base, k)
        self.m[ident] = t
        self.used.add(t)
        self.rev[t] = ident
        return t

def I(x):
    """integers only (numpy scalars, IntEnum -> int)"""
    if isinstance(x, (bool, numpy.bool_)): return int(x)
    if isinstance(x, numpy.ndarray) and x.ndim == 0: return I(x.item())
    if isinstance(x, (int, numpy.integer)): return int(x)
    if isinstance(x, float) and x == int(x): return int(x)
    if isinstance(x, numpy.floating) and float(x) == int(x): return int(x)
    raise TypeError("not an integer: %r" % (x,))

def bounds(b):
    return [I(b.lower), I(b.upper)]

def is_var(obj):
    import puan
    return issubclass(obj.__class__, puan.variable)

def node(obj, tok, _seen=None):
    """pi(proposition).  Field o numbers the distinct Python objects in traversal order: two occurrences with the same o
    are one shared object (the sharing structure is part of an object's structure, e.g. for pickling)"""
    import puan
    seen = {} if _seen is None else _seen
    o = seen.setdefault(id(obj), len(seen))
    if is_var(obj):
        lo, hi = bounds(obj.bounds)
        return {"k": "a", "id": tok(obj.id), "lo": lo, "hi": hi, "o": o}
    lo, hi = bounds(obj.bounds)
    dflt = getattr(obj, "default", None) or []
    return {"k": "c", "id": tok(obj.id), "lo": lo, "hi": hi, "sign": I(obj.sign), "value": I(obj.value),
            "kids": [node(k, tok, seen) for k in obj.propositions], "gen": bool(obj.generated_id),
            "cls": obj.__class__.__name__, "prio": I(getattr(obj, "prio", -1)),
            "dflt": [tok(d.id) for d in dflt], "o": o}

def pairs_iv(d, tok):
    """id -> Bounds|tuple|int dictionary as [[id,[lo,hi]],...]"""
    import puan
    out = []
    for k, v in d.items():
        if isinstance(v, puan.Bounds): b = bounds(v)
        elif isinstance(v, tuple): b = [I(v[0]), I(v[1])]
        else: b = [I(v), I(v)]
        out.append([tok(k), b])
    return out

def pairs_int(d, tok):
    return [[tok(k), I(v)] for k, v in d.items()]

def leaves(obj):
    """distinct leaf variables (by id), in id order"""
    seen = {}
    def rec(o):
        if is_var(o):
            seen.setdefault(o.id, o)
        else:
            for k in o.propositions: rec(k)
    rec(obj)
    return [seen[k] for k in sorted(seen, key=lambda x: (str(type(x)), x))]

def polyhedron(p, tok):
    """pi(ge_polyhedron): rows with b split off, columns with id and bounds (support column dropped)"""
    A = numpy.asarray(p)
    cols = [{"id": tok(v.id), "lo": I(v.bounds.lower), "hi": I(v.bounds.upper)} for v in list(p.variables)[1:]]
    rows = [{"b": I(r[0]), "a": [I(x) for x in r[1:]]} for r in A.tolist()] if A.ndim == 2 else []
    return rows, cols

def jdoc(j, tok):
    """a JSON document of a proposition, normalised: which entries are compound, which ids they carry"""
    if not isinstance(j, dict):
        return {"t": "?", "id": "", "leaf": True, "kids": []}
    kids = []
    for key in ("propositions",):
        kids += [jdoc(x, tok) for x in j.get(key, [])]
    for key in ("condition", "consequence", "proposition"):
        if key in j: kids.append(jdoc(j[key], tok))
    compound = ("propositions" in j) or ("condition" in j) or ("consequence" in j) or ("proposition" in j) \
        or (j.get("type") not in (None, "Proposition", "Variable"))
    return {"t": str(j.get("type", "")), "id": tok(j["id"]) if ("id" in j and compound) else "", "leaf": not compound,
            "kids": kids, "dflt": [tok(d["id"]) for d in j.get("default", [])] if compound else []}

def cfgpoly(p, tok):
    """pi(ge_polyhedron_config / ge_polyhedron): matrix, column variables, row index, default priority vector, dtype"""
    rows, cols = polyhedron(p, tok)
    for c, v in zip(cols, list(p.variables)[1:]):
        c["gen"] = bool(getattr(v, "generated_id", False))
    sv = list(p.variables)[0]
    out = {"rows": rows, "cols": cols, "support": {"id": tok(sv.id), "lo": I(sv.bounds.lower), "hi": I(sv.bounds.upper)},
           "index": [tok(getattr(v, "id", v)) for v in list(p.index)], "dtype": str(p.dtype),
           "index_kind": ["var" if is_var(v) else type(v).__name__ for v in list(p.index)]}
    dpv = getattr(p, "default_prio_vector", None)
    out["dpv"] = [I(x) for x in numpy.asarray(dpv).tolist()] if dpv is not None else []
    return out
