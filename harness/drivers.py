"""P2 drivers: each takes a JSON-able case, builds FRESH objects with the real library from /repo,
calls the public API and returns the recorded events (dicts in the trace vocabulary).
No semantics is decided here: the events are validated by TLC against PuanTrace.tla."""
import itertools, json, random
from . import proj, build as B

MAX_POINTS = 1024

def _mods():
    import puan, puan.logic.plog as pg
    return puan, pg

def _box(lv):
    """all total in-bounds assignments of the leaf variables (list of dicts id->int)"""
    ranges = [range(proj.I(v.bounds.lower), proj.I(v.bounds.upper) + 1) for v in lv]
    n = 1
    for r in ranges: n *= len(r)
    if n > MAX_POINTS:
        return None
    return [dict(zip([v.id for v in lv], vals)) for vals in itertools.product(*ranges)]

_FORCE_FORM = [None]

def _form(val, k, puan):
    """the three accepted value forms, rotated (a case may pin the form: case["form"])"""
    import numpy
    k = k % 8 if _FORCE_FORM[0] is None else _FORCE_FORM[0]
    if k == 7: return bool(val) if val in (0, 1) else int(val)          # True / False are integers too
    if k == 0: return int(val)
    if k == 1: return (int(val), int(val))
    if k == 2: return puan.Bounds(int(val), int(val))
    if k == 3: return numpy.int64(val)
    if k == 4: return (numpy.int64(val), int(val))
    nt = numpy.int8 if -128 <= val <= 127 else numpy.int16 if -32768 <= val <= 32767 else numpy.int32       # the narrowest type that holds it
    if k == 5: return (numpy.int32(val), numpy.int32(val))
    return nt(val)

def _valid(m):
    return (not proj.is_var(m)) and m.errors() == []

def _provoke(m, k):
    """a rejected call first (invalid value type / lower above upper: the library raises ValueError): what it leaves behind must
    not change later answers"""
    lv = proj.leaves(m)
    if not lv: return
    bad = [{lv[-1].id: 1.5}, {lv[0].id: (1, 0)}, {lv[len(lv) // 2].id: "x"}][k % 3]
    for call in (m.evaluate, m.evaluate_propositions, m.assume):
        try: call(dict(bad))
        except (KeyboardInterrupt, SystemExit): raise
        except BaseException: pass

def _mk(case):
    _FORCE_FORM[0] = case.get("form")
    if case.get("share"):
        # equal sub-recipes are ONE Python object in the built model (a sub-proposition the user made once and used in several places)
        return B.build(case["recipe"], leaf_str=case.get("leaf_str", False), via=case.get("via", "ctor"), style=case.get("style", 0), memo={})
    return B.build(case["recipe"], leaf_str=case.get("leaf_str", False), via=case.get("via", "ctor"), style=case.get("style", 0))

def _compounds(m):
    out, seen = [], set()
    for x in m.flatten():
        if not proj.is_var(x) and x.id not in seen:
            seen.add(x.id); out.append(x)
    return out

# ----------------------------------------------------------------------------- C03
def drv_evaluate(case):
    puan, pg = _mods()
    m = _mk(case)
    if not _valid(m): return []
    tok = proj.Tok()
    lv = proj.leaves(m)
    box = _box(lv)
    if box is None: return []
    rng = random.Random(case.get("seed", 0))
    pm = proj.node(m, tok)
    comps = [c.id for c in _compounds(m)]
    if case.get("k", 0) % 3 == 1 or case.get("src") == "handmade": _provoke(m, case.get("k", 0))
    points = []
    shared = {}                                 # ONE dictionary object, updated in place between calls on the same model
    other, other_vals = None, {}
    if case.get("prelude"):
        try:
            other = B.build(case["prelude"][0])
            other_vals = {v.id: proj.I(v.bounds.lower) for v in proj.leaves(other) if v.id not in {x.id for x in lv}}
        except Exception:
            other = None
    def point(asg, over, k):
        mm = _mk(case) if over else m          # evaluate() with a compound id leaks (known finding D2): fresh object
        interp = {i: _form(v, k + j, puan) for j, (i, v) in enumerate(asg.items())}
        interp.update({i: _form(v, k + 1, puan) for i, v in over.items()})
        if over:
            arg1, arg2 = dict(interp), dict(interp)
            if k % 4 == 3:
                # other mapping types are legitimate interpretations too (they answer differently for ABSENT keys)
                import collections
                arg1 = collections.defaultdict(int, interp); arg2 = collections.Counter() ; arg2.update({})
                arg2 = collections.defaultdict(int, interp)
        elif k % 5 == 4:
            import collections
            arg1 = collections.defaultdict(int, interp); arg2 = collections.defaultdict(int, interp)
        else:
            shared.clear(); shared.update(interp)
            arg1 = arg2 = shared
            if other is not None:
                # another model is asked with the very same dictionary first (it names the leaves of both models)
                shared.update(other_vals)
                interp = dict(shared)
                try: other.evaluate_propositions(shared); other.evaluate(shared)
                except Exception: pass
        res = mm.evaluate_propositions(arg1)
        mm2 = _mk(case) if over else m
        top = mm2.evaluate(arg2)
        points.append({"interp": proj.pairs_iv(interp, tok), "res_all": proj.pairs_iv(res, tok),
                       "res_top": proj.bounds(top)})
    for k, asg in enumerate(box):
        point(asg, {}, k)
    # the statement does not restrict the given values to the declared bounds (variable.evaluate is documented with values outside)
    for k in range(min(3, len(box)) if lv else 0):
        asg = dict(rng.choice(box))
        v = rng.choice(lv)
        asg[v.id] = proj.I(v.bounds.upper) + 1 + k if k % 2 == 0 else proj.I(v.bounds.lower) - 1 - k
        point(asg, {}, k)
    # overrides of sub-proposition ids (and of the top id) with constants
    overs = [{c: v} for c in comps for v in (0, 1)]
    overs += [{c1: v1, c2: v2} for c1, c2 in itertools.combinations(comps, 2) for v1 in (0, 1) for v2 in (0, 1)]
    rng.shuffle(overs)
    for k, over in enumerate(overs[: case.get("n_over", 6)]):
        for asg in (box if len(box) <= 8 else rng.sample(box, 4)):
            point(asg, over, k)
    return [{"op": "evaluate", "model": pm, "points": points}]

def _critical_points(m, rng, n_extra=24):
    """for models with wide leaf ranges: every leaf at lower / upper bound and around the thresholds of the nodes above it"""
    lv = proj.leaves(m)
    vals = {}
    thr = set()
    for c in _compounds(m):
        thr.update({proj.I(c.value), proj.I(c.value) - 1, -proj.I(c.value), -proj.I(c.value) + 1, proj.I(c.value) + 1})
    for v in lv:
        lo, hi = proj.I(v.bounds.lower), proj.I(v.bounds.upper)
        cand = {lo, hi, lo + 1, hi - 1, 0, 1, -1} | thr
        vals[v.id] = sorted(x for x in cand if lo <= x <= hi)
    pts, seen = [], set()
    def add(p):
        key = tuple(sorted(p.items(), key=str))
        if key not in seen:
            seen.add(key); pts.append(p)
    for pick in (0, -1):
        add({v.id: vals[v.id][pick] for v in lv})
    for v in lv:                                     # one leaf sweeps its critical values, the others at a random critical value
        for x in vals[v.id]:
            p = {w.id: rng.choice(vals[w.id]) for w in lv}
            p[v.id] = x
            add(p)
    for _ in range(n_extra):
        add({v.id: rng.randint(proj.I(v.bounds.lower), proj.I(v.bounds.upper)) if rng.random() < 0.5 else rng.choice(vals[v.id]) for v in lv})
    return pts

def _evals(m, box, tok, puan, k0=0):
    """library evaluate_propositions on every total assignment of the box"""
    pts = []
    shared = {}
    for k, asg in enumerate(box):
        interp = {i: _form(v, k + k0 + j, puan) for j, (i, v) in enumerate(asg.items())}
        if k % 3 == 2: interp = dict(reversed(list(interp.items())))           # the order of the keys is not part of an interpretation
        if k % 4:                              # runs of calls with ONE dictionary object that the caller updates in place
            shared.clear(); shared.update(interp); arg = shared
        else:
            arg = interp
        res = m.evaluate_propositions(arg)
        pts.append({"asg": proj.pairs_int(asg, tok), "ev": proj.pairs_iv(res, tok)})
    return pts

# ----------------------------------------------------------------------------- C01 / C02
def _prelude(case):
    """other models of the same process: built, validated and encoded before the model of the case (a rule set that was edited and
    rebuilt; what the case's model answers afterwards must not depend on them)"""
    for r in case.get("prelude", ()):
        try:
            pm = B.build(r)
            if _valid(pm):
                pm.to_ge_polyhedron(active=True); pm.to_ge_polyhedron(active=False)
                for x in pm.flatten():
                    if not proj.is_var(x):
                        x.equation_bounds, x.is_tautology, x.is_contradiction
                pm.evaluate({}); pm.evaluate_propositions({})
                pm.negate(); pm.reduce()
        except Exception:
            pass

def drv_to_poly(case):
    puan, pg = _mods()
    _prelude(case)
    m = _mk(case)
    if not _valid(m): return []
    tok = proj.Tok()
    box = _box(proj.leaves(m))
    wide = box is None
    if wide:
        if not case.get("wide"): return []
        box = _critical_points(m, random.Random(case.get("seed", 0)))
    pm = proj.node(m, tok)
    pts = _evals(m, box, tok, puan)
    out = []
    for active in (True, False):
        # (the un-asserted system is what the call gives by default; asserted also positionally)
        if active: p = m.to_ge_polyhedron(True) if len(pts) % 2 else m.to_ge_polyhedron(active=True)
        else: p = m.to_ge_polyhedron() if len(pm.get("kids", ())) % 2 else m.to_ge_polyhedron(active=False)
        rows, cols = proj.polyhedron(p, tok)
        out.append({"op": "to_poly", "model": pm, "active": active, "rows": rows, "cols": cols, "points": pts,
                    "after": proj.node(m, tok), "wide": wide})
    return out

def drv_to_poly2(case):
    puan, pg = _mods()
    _prelude(case)
    m = _mk(case)
    if not _valid(m): return []
    tok = proj.Tok()
    box = _box(proj.leaves(m))
    wide = box is None
    if wide:
        if not case.get("wide"): return []
        box = _critical_points(m, random.Random(case.get("seed", 0)))
    pm = proj.node(m, tok)
    pts = []
    for k, asg in enumerate(box):
        I1 = {i: _form(v, k, puan) for i, v in asg.items()}
        ev = dict(m.evaluate_propositions(dict(I1)))
        ev[m.id] = m.evaluate(dict(I1))
        pts.append({"asg": proj.pairs_int(asg, tok), "ev": proj.pairs_iv(ev, tok)})
    p = m.to_ge_polyhedron(active=True)
    rows, cols = proj.polyhedron(p, tok)
    naux = len(cols) - len(box[0]) if box else 0
    full = (not wide) and len(box) * (2 ** max(naux, 0)) <= case.get("max_full", 1 << 14)
    return [{"op": "to_poly2", "model": pm, "rows": rows, "cols": cols, "points": pts, "full": full, "wide": wide,
             "recipe": B.recipe_tokens(case["recipe"], tok)}]

# ----------------------------------------------------------------------------- C05
def drv_negate(case):
    puan, pg = _mods()
    _prelude(case)
    m = _mk(case)
    if not _valid(m): return []
    tok = proj.Tok()
    box = _box(proj.leaves(m))
    if box is None: return []
    pm = proj.node(m, tok)
    out = []
    for via in ("negate", "Not"):
        g = m.negate() if via == "negate" else pg.Not(m)
        pts = []
        for k, asg in enumerate(box):
            I1 = {i: _form(v, k, puan) for i, v in asg.items()}
            pts.append({"asg": proj.pairs_int(asg, tok), "ev_orig": proj.bounds(m.evaluate(dict(I1))),
                        "ev_neg": proj.bounds(g.evaluate(dict(I1)))})
        out.append({"op": "negate", "via": via, "model": pm, "neg": proj.node(g, tok), "points": pts,
                    "neg_errors": [str(getattr(x, "value", x)) for x in g.errors()], "after": proj.node(m, tok)})
    return out

# ----------------------------------------------------------------------------- C06
def _subranges(v):
    lo, hi = proj.I(v.bounds.lower), proj.I(v.bounds.upper)
    opts = [None, lo, hi, (lo, hi)]
    if hi - lo >= 2: opts += [(lo + 1, hi), (lo, hi - 1), lo + 1]
    return opts

def drv_partial(case):
    puan, pg = _mods()
    _prelude(case)
    m = _mk(case)
    if not _valid(m): return []
    tok = proj.Tok()
    lv = proj.leaves(m)
    if _box(lv) is None: return []
    pm = proj.node(m, tok)
    rng = random.Random(case.get("seed", 0))
    if case.get("k", 0) % 3 == 1 or case.get("src") == "handmade": _provoke(m, case.get("k", 0))
    combos = list(itertools.product(*[_subranges(v) for v in lv]))
    if len(combos) > case.get("max_interps", 40):
        combos = rng.sample(combos, case.get("max_interps", 40))
    # entries that lie (partly) outside the leaf's declared bounds: the interpretation says what the leaf is
    for j, v in enumerate(lv[:2]):
        lo, hi = proj.I(v.bounds.lower), proj.I(v.bounds.upper)
        for o in (hi + 2, (lo - 1, hi + 1), (hi + 1, hi + 3), lo - 2):
            combos.append(tuple(o if i == j else (None if (i + j) % 2 else proj.I(w.bounds.lower)) for i, w in enumerate(lv)))
    points = []
    shared = {}
    for k, combo in enumerate(combos):
        interp = {}
        for j, (v, o) in enumerate(zip(lv, combo)):
            if o is None: continue
            if isinstance(o, tuple):
                interp[v.id] = o if (k + j) % 2 else puan.Bounds(*o)
            else:
                interp[v.id] = _form(o, k + j, puan)
        if k % 4:                                           # (runs of consecutive calls with the same object)
            shared.clear(); shared.update(interp)           # one dictionary object, updated in place between the calls
            res = m.evaluate_propositions(shared)
            top = m.evaluate(shared)
        else:
            res = m.evaluate_propositions(dict(interp))
            top = m.evaluate(dict(interp))
        points.append({"interp": proj.pairs_iv(interp, tok), "res_all": proj.pairs_iv(res, tok), "res_top": proj.bounds(top)})
    out = [{"op": "partial", "model": pm, "points": points, "after": proj.node(m, tok)}]
    for c in _compounds(m):
        n = 1
        for k in c.propositions: n *= proj.I(k.bounds.upper) - proj.I(k.bounds.lower) + 1
        if n > 4096: continue
        eb = c.equation_bounds
        out.append({"op": "flags", "node": proj.node(c, tok), "taut": bool(c.is_tautology), "contra": bool(c.is_contradiction),
                    "eqb": [proj.I(eb[0]), proj.I(eb[1])]})
    return out

# ----------------------------------------------------------------------------- C07 / C08
def _dict_options(m, rng, max_ids, n_dicts, compound_opts=((0, 0), (1, 1), (0, 1))):
    """assumption dictionaries over <= max_ids ids (leaves: constants and sub-ranges, compounds: 0, 1, (0,1))"""
    lv = proj.leaves(m)
    ids = [(v.id, [o for o in _subranges(v) if o is not None]) for v in lv]
    ids += [(c.id, [o if o[0] != o[1] else o[0] for o in compound_opts]) for c in _compounds(m)]
    dicts = [{}]
    for k in range(1, max_ids + 1):
        for sel in itertools.combinations(ids, k):
            for vals in itertools.product(*[s[1] for s in sel]):
                dicts.append({s[0]: v for s, v in zip(sel, vals)})
    if len(dicts) > n_dicts:
        dicts = [dicts[0]] + rng.sample(dicts[1:], n_dicts - 1)
    return dicts

def _as_form(o, k, puan):
    if isinstance(o, tuple):
        return o if k % 2 else puan.Bounds(*o)
    return _form(o, k, puan)

def _assume_wide(case):
    """assumptions and interpretations with magnitudes beyond the default integer range: the given dictionaries, the remaining leaves
    at critical points; judged point by point (PuanTrace.EvAssumeWide)"""
    puan, pg = _mods()
    m0 = _mk(case)
    if not _valid(m0): return []
    lv = proj.leaves(m0)
    rng = random.Random(case.get("seed", 0))
    crit = _critical_points(m0, rng, n_extra=6)
    out = []
    for k, D in enumerate(case["dicts"]):
        tok = proj.Tok()
        m = _mk(case)
        pm = proj.node(m, tok)
        Df = {i: _as_form(tuple(o) if isinstance(o, list) else o, k + j, puan) for j, (i, o) in enumerate(D.items())}
        r = m.assume(dict(Df))
        rest_ids = [v.id for v in lv if v.id not in D]
        seen, pts = set(), []
        for asg in crit:
            rest = {i: asg[i] for i in rest_ids}
            key = tuple(rest.items())
            if key in seen: continue
            seen.add(key)
            I1 = {i: _form(v, k, puan) for i, v in rest.items()}
            union = dict(Df); union.update(I1)
            pts.append({"rest": proj.pairs_iv(I1, tok), "ev_assumed": proj.bounds(r.evaluate(dict(I1))), "ev_union": proj.bounds(_mk(case).evaluate(union))})
        out.append({"op": "assume_wide", "model": pm, "dict": proj.pairs_iv(Df, tok), "res": proj.node(r, tok), "points": pts})
    return out

def drv_assume(case):
    if case.get("dicts"): return _assume_wide(case)
    puan, pg = _mods()
    m0 = _mk(case)
    if not _valid(m0): return []
    lv = proj.leaves(m0)
    box = _box(lv)
    if box is None: return []
    rng = random.Random(case.get("seed", 0))
    out = []
    for k, D in enumerate(_dict_options(m0, rng, case.get("max_ids", 2), case.get("n_dicts", 12))):
        tok = proj.Tok()
        m = _mk(case)                       # assume() on an object whose own id is named leaks (D2): fresh object per call
        pm = proj.node(m, tok)
        Df = {i: _as_form(o, k + j, puan) for j, (i, o) in enumerate(D.items())}
        r = m.assume(dict(Df))
        rest_ids = [v.id for v in lv if v.id not in D]
        seen, pts = set(), []
        for asg in box:
            rest = {i: asg[i] for i in rest_ids}
            key = tuple(rest.items())
            if key in seen: continue
            seen.add(key)
            I1 = {i: _form(v, k, puan) for i, v in rest.items()}
            ev_a = r.evaluate(dict(I1))
            union = dict(Df); union.update(I1)
            ev_u = _mk(case).evaluate(union)
            pts.append({"rest": proj.pairs_iv(I1, tok), "ev_assumed": proj.bounds(ev_a), "ev_union": proj.bounds(ev_u)})
        out.append({"op": "assume", "model": pm, "dict": proj.pairs_iv(Df, tok), "res": proj.node(r, tok), "points": pts})
    # one object assumed several times: what an earlier call returned must not change afterwards
    dicts = _dict_options(m0, rng, 1, 6)
    if len(dicts) >= 3:
        tok = proj.Tok()
        m = _mk(case)
        kept = []
        for k, D in enumerate(dicts[1:4]):
            Df = {i: _as_form(o, k, puan) for i, o in D.items()}
            r = m.assume(dict(Df))
            kept.append((r, proj.node(r, tok)))
        out.append({"op": "results_stable", "first": [p for _, p in kept], "later": [proj.node(r, tok) for r, _ in kept]})
    # one model, ONE dictionary object that is extended / updated in place between the calls (leaf ids only): every call answers for
    # what the dictionary holds at that moment, like a fresh model asked with a fresh dictionary
    ldicts = [D for D in _dict_options(m0, rng, 2, 40, compound_opts=()) if D and all(i in {v.id for v in lv} for i in D)][:5]
    if len(ldicts) >= 2:
        m = _mk(case)
        shared, got, want = {}, [], []
        for k, D in enumerate(ldicts):
            Df = {i: _as_form(o, k, puan) for i, o in D.items()}
            if k % 2: shared.clear()
            shared.update(Df)
            got.append(proj.node(m.assume(shared), proj.Tok()))
            want.append(proj.node(_mk(case).assume(dict(shared)), proj.Tok()))
        out.append({"op": "results_stable", "first": want, "later": got, "shared_dict": True})
    return out

def drv_reduce(case):
    puan, pg = _mods()
    m0 = _mk(case)
    if not _valid(m0): return []
    lv = proj.leaves(m0)
    box = _box(lv)
    if box is None: return []
    rng = random.Random(case.get("seed", 0))
    out = []
    for k, D in enumerate(_dict_options(m0, rng, case.get("max_ids", 2), case.get("n_dicts", 12), compound_opts=((0, 0), (1, 1)))):
        tok = proj.Tok()
        Df = {i: _as_form(o, k + j, puan) for j, (i, o) in enumerate(D.items())}
        src = _mk(case)
        if k % 3 == 1:
            src.reduce()                       # the source has been reduced before (the result is not used)
            if k % 2: _provoke(src, k)
        m = src.assume(dict(Df)) if D else src
        if proj.is_var(m):
            continue                           # the whole model became a constant variable: reduce() is the identity
        pm = proj.node(m, tok)
        r = m.reduce()
        if k % 3 == 2: r = m.reduce()          # ... and a second reduce() of the same object answers like the first
        free = [v for v in proj.leaves(m) if proj.I(v.bounds.lower) != proj.I(v.bounds.upper)]
        fb = _box(free)
        pts = []
        for j, asg in enumerate(fb):
            I1 = {i: _form(v, k + j, puan) for i, v in asg.items()}
            pts.append({"rest": proj.pairs_iv(I1, tok), "ev_model": proj.bounds(m.evaluate(dict(I1))),
                        "ev_red": proj.bounds(r.evaluate(dict(I1)))})
        out.append({"op": "reduce", "model": pm, "res": proj.node(r, tok), "points": pts, "after": proj.node(m, tok)})
    return out

# ----------------------------------------------------------------------------- C10
def drv_errors(case):
    puan, pg = _mods()
    m = _mk(case)
    if proj.is_var(m): return []
    tok = proj.Tok()
    errs = m.errors()
    out = [{"op": "errors", "model": proj.node(m, tok), "errs": sorted({str(getattr(x, "value", x)) for x in errs}),
            "after": proj.node(m, tok)}]
    if "recipe" in case and case.get("via", "ctor") == "ctor":
        out[0]["recipe"] = B.recipe_tokens(case["recipe"], tok)
    if case.get("k", 0) % 4 == 0 or case.get("src") == "handmade":
        errs2 = m.errors()                 # validation of an already validated object
        out.append({"op": "errors", "model": proj.node(m, tok), "errs": sorted({str(getattr(x, "value", x)) for x in errs2}),
                    "after": proj.node(m, tok), "again": True})
        # what reduce() / assume() hand out, validated next to a freshly built equal copy of one of its sub-propositions
        if errs == []:
            for derive in (lambda: _mk(case).reduce(), lambda: _mk(case).assume({})):
                try:
                    r = derive()
                    if proj.is_var(r): continue
                    sub = next((k for k in r.propositions if not proj.is_var(k)), None)
                    if sub is None: continue
                    fresh = B.from_node(proj.node(sub, tok), tok)
                    mix = pg.All(r, fresh, variable="MIXTOP")
                    me = mix.errors()
                    out.append({"op": "errors", "model": proj.node(mix, tok), "errs": sorted({str(getattr(x, "value", x)) for x in me}),
                                "after": proj.node(mix, tok), "derived": True})
                except (KeyboardInterrupt, SystemExit):
                    raise
                except BaseException:
                    pass
    return out

# ----------------------------------------------------------------------------- C04
def drv_build(case):
    puan, pg = _mods()
    _prelude(case)
    r = case["recipe"]
    out = []
    lv = B.recipe_leaves(r)
    ids = sorted(lv)
    for via in case.get("vias", ["ctor"]):
        c2 = dict(case); c2["via"] = via
        if via == "cicJE":
            d = B.to_cicje(r)
            if d is None: continue
            m = pg.Imply.from_cicJE(d)
        elif via in ("ctor_sub", "ctor_gen", "ctor_map"):
            c2["via"] = "ctor"; c2["style"] = {"ctor_sub": 1, "ctor_gen": 2, "ctor_map": 3}[via]
            m = _mk(c2)
        else:
            m = _mk(c2)
        if proj.is_var(m):
            continue
        # whether the recipe is in the property's domain is decided by TLC on what the recipe DENOTES (PuanCtor.Mk), not by the
        # library's validation of what was built: a well-defined recipe built into an object that does not validate is an event
        errs = sorted(str(getattr(x, "value", x)) for x in m.errors())
        tok = proj.Tok()
        table = []
        shared_ = {}
        if not proj.is_var(m) and len(json.dumps(r)) % 3 == 0 and not errs: _provoke(m, len(ids))
        try:
            for k, vals in enumerate(itertools.product((0, 1), repeat=len(ids))):
                asg = dict(zip(ids, vals))
                interp_ = {i: _form(v, k, puan) for i, v in asg.items()}
                if k % 4:
                    shared_.clear(); shared_.update(interp_); interp_ = shared_        # one dictionary object updated in place
                table.append({"asg": proj.pairs_int(asg, tok), "ev": proj.bounds(m.evaluate(interp_))})
        except Exception:
            if errs: continue                 # (an object that does not validate may not evaluate at all)
            raise
        out.append({"op": "build", "via": via, "recipe": B.recipe_tokens(r, tok), "model": proj.node(m, tok), "table": table, "errs": errs})
    return out

# ----------------------------------------------------------------------------- C16 / C17
def _cc_class_map():
    import puan, puan.logic.plog as pg, puan.modules.configurator as cc
    return [puan.variable, pg.AtLeast, pg.AtMost, pg.All, cc.Any, cc.Xor, pg.Not, pg.XNor, pg.Imply]

def _has_cc(r):
    return r["c"] in ("ccAny", "ccXor") or (r["c"] != "leaf" and any(_has_cc(x) for x in r["a"]))

def _from_json(j, case):
    import puan.logic.plog as pg, puan.modules.configurator as cc
    if case["recipe"]["c"] == "Cfg":
        return cc.StingyConfigurator.from_json(j)
    if _has_cc(case["recipe"]):
        return pg.from_json(j, class_map=_cc_class_map())
    return pg.from_json(j)

def _cfg_part(m, tok, cap=1 << 12):
    """what C16/C17/C18 compare for configurators: default priorities and the configured polyhedron"""
    dp = m.default_prios
    P = m.ge_polyhedron
    pp = proj.cfgpoly(P, tok)
    n = 1
    for c in pp["cols"]: n *= c["hi"] - c["lo"] + 1
    return {"dp": [[tok(k), proj.I(v)] for k, v in dp.items()], "poly": pp, "enum": n <= cap}

def drv_json(case):
    puan, pg = _mods()
    m = _mk(case)
    if not _valid(m): return []
    tok = proj.Tok()
    box = _box(proj.leaves(m))
    if box is None: return []
    pm = proj.node(m, tok)
    if case.get("k", 0) % 2 == 0 or case.get("src") == "handmade":
        # a caller that edits the data structure it got from an earlier to_json() (leaf entries renamed / re-bounded in place): the
        # next to_json() of the untouched model is still the model's own document
        def scribble(d):
            if isinstance(d, dict):
                if "propositions" not in d and "id" in d:
                    d["id"] = "scribbled"; d["bounds"] = {"lower": -9, "upper": 9}
                for v in list(d.values()): scribble(v)
            elif isinstance(d, list):
                for v in d: scribble(v)
        scribble(m.to_json())
    j = json.loads(json.dumps(m.to_json()))
    back = _from_json(j, case)
    pts = []
    for k, asg in enumerate(box):
        I1 = {i: _form(v, k, puan) for i, v in asg.items()}
        pts.append({"asg": proj.pairs_int(asg, tok), "ev_orig": proj.bounds(m.evaluate(dict(I1))),
                    "ev_back": proj.bounds(back.evaluate(dict(I1)))})
    e = {"op": "json", "model": pm, "back": proj.node(back, tok), "jdoc": proj.jdoc(j, tok), "points": pts,
         "is_cfg": case["recipe"]["c"] == "Cfg", "after": proj.node(m, tok), "recipe": B.recipe_tokens(case["recipe"], tok)}
    if e["is_cfg"]:
        e["cfg_orig"] = _cfg_part(m, tok)
        e["cfg_back"] = _cfg_part(back, tok)
    return [e]

def _shorts(m, tok):
    out = []
    for x in m.flatten():
        s = x.to_short()
        out.append([tok(s[0]), proj.I(s[1]), [tok(i) for i in s[2]], proj.I(s[3]), [proj.I(s[4][0]), proj.I(s[4][1])]])
    return out

def _battery(m, box, tok, puan, is_cfg):
    """fixed query battery: evaluations on the box, validation, JSON form, polyhedron, configurator queries"""
    q = {"evals": [proj.bounds(m.evaluate({i: _form(v, k, puan) for i, v in asg.items()})) for k, asg in enumerate(box)],
         "errors": sorted(str(getattr(x, "value", x)) for x in m.errors()),
         "jdoc": proj.jdoc(json.loads(json.dumps(m.to_json())), tok)}
    rows, cols = proj.polyhedron(m.to_ge_polyhedron(active=True), tok)
    q["poly"] = {"rows": rows, "cols": cols}
    if is_cfg:
        from . import solvers
        q["cfg"] = _cfg_part(m, tok)
        prios = [{}, {cols[-1]["id"]: 1} if cols else {}]
        sel = []
        for mode in ("capture", "exact"):
            if mode == "exact" and not q["cfg"]["enum"]: continue
            s = solvers.Capture(mode)
            real_prios = [{tok.rev[k]: v for k, v in p.items()} for p in prios]
            res = list(m.select(*real_prios, solver=s))
            sel.append([[[tok(k), proj.I(v)] for k, v in r[0].items()] for r in res])
        q["select"] = sel
    return q

def drv_b64(case):
    puan, pg = _mods()
    for tw in case.get("twins", ()):
        # another model with the same ids, bounds and thresholds all the way down (it differs in classes / defaults / tags only) is
        # packed in the same process first
        try:
            B.build(tw).to_b64()
        except Exception:
            pass
    m = _mk(case)
    if not _valid(m): return []
    tok = proj.Tok()
    box = _box(proj.leaves(m))
    if box is None:
        if not case.get("wide"): return []
        box = _critical_points(m, random.Random(case.get("seed", 0)), n_extra=4)
    is_cfg = case["recipe"]["c"] == "Cfg"
    pm0, sh0 = proj.node(m, tok), _shorts(m, tok)          # what the model is BEFORE it is packed (packing must not rearrange it)
    if is_cfg and case.get("k", 0) % 2 == 0:
        m.ge_polyhedron                                      # a polyhedron made earlier
    s = m.to_b64()
    back = pg.from_b64(s)
    out = [{"op": "b64", "model": pm0, "back": proj.node(back, tok),
            "shorts_before": sh0, "shorts_after": _shorts(back, tok),
            "q_before": _battery(m, box, tok, puan, is_cfg), "q_after": _battery(back, box, tok, puan, is_cfg),
            "again": proj.node(pg.from_b64(s), tok), "same_string": bool(back.to_b64() == s)}]
    import zlib
    if not (is_cfg or zlib.crc32(s.encode()) % 4 == 0):
        return out
    try:
        lv0 = proj.leaves(m)
        derived = [m.reduce()] + ([m.assume({lv0[0].id: proj.I(lv0[0].bounds.lower)})] if lv0 else [])
    except BaseException:
        derived = []
    for dm in derived:
        if proj.is_var(dm): continue
        dback = pg.from_b64(dm.to_b64())
        out.append({"op": "b64", "model": proj.node(dm, tok), "back": proj.node(dback, tok), "shorts_before": _shorts(dm, tok),
                    "shorts_after": _shorts(dback, tok), "q_before": 0, "q_after": 0, "again": proj.node(dm, tok), "derived": True})
    s2 = m.to_b64()                                   # m has answered the whole battery by now
    back2 = pg.from_b64(s2)
    out.append({"op": "b64", "model": proj.node(m, tok), "back": proj.node(back2, tok),
                "shorts_before": _shorts(m, tok), "shorts_after": _shorts(back2, tok),
                "q_before": _battery(m, box, tok, puan, is_cfg), "q_after": _battery(back2, box, tok, puan, is_cfg),
                "again": proj.node(pg.from_b64(s2), tok), "same_string": bool(s2 == s), "round": 2})
    if is_cfg:
        import puan.ndarray as pnd
        from . import solvers
        P = m.ge_polyhedron
        sp = P.to_b64()
        Q1 = pnd.ge_polyhedron_config.from_b64(sp)
        pP, pQ1 = proj.cfgpoly(P, tok), proj.cfgpoly(Q1, tok)
        def sel(poly):
            ids = [c["id"] for c in pP["cols"]]
            prios = [{}, {tok.rev[ids[-1]]: 2, tok.rev[ids[0]]: -1}] if ids else [{}]
            r = []
            for mode in ("capture", "exact"):
                if mode == "exact" and _box_of_cols(pP["cols"]) > (1 << 12): continue
                cs = solvers.Capture(mode)
                res = list(poly.select(*prios, solver=cs))
                r.append({"objs": [[proj.I(x) for x in o] for c in cs.calls for o in c["objectives"]],
                          "res": [[[tok(k), proj.I(v)] for k, v in x[0].items()] for x in res]})
            return r
        sP, sQ = sel(P), sel(Q1)
        # unpack, edit the unpacked object in place, unpack the same string again: must still equal what was packed
        Q1[0, 0] += 1
        if Q1.default_prio_vector is not None and len(Q1.default_prio_vector): Q1.default_prio_vector[0] = 7
        Q2 = pnd.ge_polyhedron_config.from_b64(sp)
        out.append({"op": "b64poly", "p_before": pP, "p_after": pQ1, "p_again": proj.cfgpoly(Q2, tok), "sel_before": sP, "sel_after": sQ})
        # ... and the edited object packs to what it is now, not to what it was unpacked from
        pE = proj.cfgpoly(Q1, tok)
        s3 = Q1.to_b64()
        out.append({"op": "b64poly", "p_before": pE, "p_after": proj.cfgpoly(pnd.ge_polyhedron_config.from_b64(s3), tok),
                    "p_again": proj.cfgpoly(pnd.ge_polyhedron_config.from_b64(Q1.to_b64()), tok), "sel_before": [], "sel_after": [], "edited": True})
        import numpy
        M = numpy.asarray(P)
        # the same matrix held column-major (as numpy gives it after a transpose), and labels that are plain numbers: integer column
        # ids 0, 1, 2, ... with their own bounds, integer row labels
        if M.ndim == 2 and M.shape[0] >= 1 and M.shape[1] >= 2:
            variants = [("F", numpy.asfortranarray(M), list(P.variables), list(P.index)),
                        ("T", numpy.ascontiguousarray(M.T).T, list(P.variables), list(P.index)),
                        ("num", M.copy(), [puan.variable.support_vector_variable()] + [puan.variable(j, (0, 3) if j % 2 else (-1, 1)) for j in range(1, M.shape[1])],
                         list(range(M.shape[0]))),
                        # two columns labelled with the same id (priorities are kept by position)
                        ("dup", M.copy(), list(P.variables)[:-1] + [list(P.variables)[1]] if M.shape[1] >= 3 else list(P.variables), list(P.index))]
            for tag, arr_, vs_, ix_ in variants:
                try:
                    Pv = pnd.ge_polyhedron_config(arr_, default_prio_vector=numpy.array(P.default_prio_vector), variables=vs_, index=ix_)
                    sv_ = Pv.to_b64()
                    out.append({"op": "b64poly", "p_before": proj.cfgpoly(Pv, tok), "p_after": proj.cfgpoly(pnd.ge_polyhedron_config.from_b64(sv_), tok),
                                "p_again": proj.cfgpoly(pnd.ge_polyhedron_config.from_b64(sv_), tok), "sel_before": [], "sel_after": [], "variant": tag})
                except (KeyboardInterrupt, SystemExit): raise
                except BaseException as ex:
                    out.append({"op": "exc", "exc": type(ex).__name__, "msg": str(ex)[:150], "where": "b64 round trip of a configured polyhedron (%s)" % tag})
        # the same polyhedron stored with another integer dtype keeps that dtype
        dts = [numpy.int32, numpy.int16, numpy.int8]
        for dt in dts[len(pP["cols"]) % 3:] + dts[:len(pP["cols"]) % 3]:
            if M.size and (M.min() < numpy.iinfo(dt).min or M.max() > numpy.iinfo(dt).max): continue
            Pd = pnd.ge_polyhedron_config(M.astype(dt), default_prio_vector=numpy.array(P.default_prio_vector), variables=list(P.variables),
                                          index=list(P.index), dtype=dt)
            sd = Pd.to_b64()
            Qd = pnd.ge_polyhedron_config.from_b64(sd)
            out.append({"op": "b64poly", "p_before": proj.cfgpoly(Pd, tok), "p_after": proj.cfgpoly(Qd, tok),
                        "p_again": proj.cfgpoly(pnd.ge_polyhedron_config.from_b64(sd), tok), "sel_before": [], "sel_after": [], "dtype": str(numpy.dtype(dt))})
            # asked once, then edited in place, then packed: the polyhedron and its unpacked copy answer alike
            sel(Pd)
            if M.size and int(M[0, -1]) + 1 <= numpy.iinfo(dt).max:
                Pd[0, -1] += 1
                Qe = pnd.ge_polyhedron_config.from_b64(Pd.to_b64())
                out.append({"op": "b64poly", "p_before": proj.cfgpoly(Pd, tok), "p_after": proj.cfgpoly(Qe, tok), "p_again": proj.cfgpoly(Qe, tok),
                            "sel_before": sel(Pd), "sel_after": sel(Qe), "dtype": str(numpy.dtype(dt)), "edited": True})
            break
    return out

def drv_b64_xproc(case):
    """pack here, unpack in ANOTHER interpreter (other PYTHONHASHSEED, as a service that receives the string would): what arrives is
    the same model - structure, listing, text form, validation, and it still de-duplicates against freshly built equal objects"""
    import os, subprocess, sys
    from . import xproc
    puan, pg = _mods()
    items, sent = [], []
    for r in case["recipes"]:
        m = B.build(r)
        if proj.is_var(m) or m.errors() != []: continue
        hash(m); set(m.flatten()); m.to_text()                  # queries that hash the model and its parts before it is packed
        tok = proj.Tok()
        items.append((r, xproc.observe(m, r, proj, B, pg, tok)))
        sent.append(json.dumps({"recipe": r, "s": m.to_b64()}))
    if not items: return []
    env = dict(os.environ, PYTHONHASHSEED=str(case.get("other_seed", 1)))
    p = subprocess.run([sys.executable, "-m", "harness.xproc"], input="\n".join(sent) + "\n", capture_output=True, text=True, env=env,
                       cwd=os.path.dirname(os.path.dirname(os.path.abspath(__file__))), timeout=600)
    lines = [l for l in p.stdout.splitlines() if l.strip()]
    if p.returncode != 0 or len(lines) != len(items):
        return [{"op": "exc", "exc": "ChildFailed", "msg": (p.stderr or "")[-300:], "where": "harness.xproc"}]
    out = []
    for (r, here), ln in zip(items, lines):
        there = json.loads(ln)
        if "raised" in there:
            out.append({"op": "exc", "exc": there["raised"], "msg": there.get("msg", ""), "where": "from_b64 in another interpreter"}); continue
        out.append({"op": "b64", "model": here["node"], "back": there["node"], "shorts_before": [], "shorts_after": [],
                    "q_before": {k: here[k] for k in ("flat", "text", "errors", "mix")}, "q_after": {k: there[k] for k in ("flat", "text", "errors", "mix")},
                    "again": here["node"], "same_string": True, "xproc": True})
    return out

# ============================================================================= polyhedra (C11, C12, C19, C20)
def _poly(case):
    """fresh ge_polyhedron for case = {"rows": [[b, a1..an], ...], "bounds": [[lo,hi],...]} (+ optional ids / index ids)"""
    import numpy, puan, puan.ndarray as pnd
    ids = case.get("ids") or ["x%d" % (j + 1) for j in range(len(case["bounds"]))]
    bd = {"int8": numpy.int8, "int16": numpy.int16}.get(case.get("bounds_dtype"))
    mkb = (lambda b: tuple(b)) if bd is None else (lambda b: puan.Bounds(bd(b[0]), bd(b[1])))      # bounds taken from a narrow numpy table
    kk = case.get("k", 0)
    def mkv(j, i, b):
        # the same declaration in the spellings the constructor documents (bounds as tuple / list / Bounds / single integer, dtype named or not)
        if bd is not None: return puan.variable(i, mkb(b))
        f = (kk + j) % 6
        lo, hi = int(b[0]), int(b[1])
        if f == 1: return puan.variable(i, (lo, hi), dtype="int")
        if f == 2: return puan.variable(i, [lo, hi])
        if f == 3: return puan.variable(i, puan.Bounds(lo, hi))
        if f == 4 and lo == hi: return puan.variable(i, lo)
        if f == 4 and (lo, hi) == (0, 1): return puan.variable(i, dtype="bool") if kk % 2 else puan.variable(i)
        if f == 5 and (lo, hi) == (0, 1): return puan.variable(i, (0, 1), dtype="bool")
        if f == 5: return puan.variable(i, (lo, hi), dtype=puan.Dtype.INT)
        return puan.variable(i, (lo, hi))
    # (the variable that labels the first column - the constants - is usually the support vector variable; any variable will do there)
    v0 = puan.variable.support_vector_variable() if kk % 7 != 3 else (puan.variable("0") if kk % 2 else puan.variable(0, (0, 1)))
    vs = [v0] + [mkv(j, i, b) for j, (i, b) in enumerate(zip(ids, case["bounds"]))]
    idx = case.get("index")
    arr = numpy.array(case["rows"], dtype={"int8": numpy.int8, "int16": numpy.int16, "int32": numpy.int32}.get(case.get("dtype"), numpy.int64)).reshape(len(case["rows"]), len(vs))
    kw = {"index": [puan.variable(i, (0, 1)) for i in idx]} if idx else {}
    if case.get("dtype"):
        kw["dtype"] = arr.dtype
    return pnd.ge_polyhedron(arr, variables=vs, **kw)

def _pp(P, tok):
    rows, cols = proj.polyhedron(P, tok)
    return {"rows": rows, "cols": cols, "index": [tok(getattr(v, "id", v)) for v in list(P.index)]}

def _cv(vec):
    import numpy
    v = numpy.asarray(vec, dtype=float)
    fixed = (~numpy.isnan(v)).tolist()
    return fixed, [int(x) if f else 0 for x, f in zip(v.tolist(), fixed)]

def drv_poly_reduce(case):
    import numpy, puan, puan.ndarray as pnd
    tok = proj.Tok()
    P = _poly(case)
    base = _pp(P, tok)
    out = []
    # one shot, with the loop's hook events
    del puan._verif.events[:]
    rr, cc = P.reducable_rows_and_columns()
    hooks = list(puan._verif.events)
    del puan._verif.events[:]
    red = P.reduce(rr, cc)
    steps = []
    fixed, val = [False] * len(base["cols"]), [0] * len(base["cols"])
    for kind, f in hooks:
        if kind == "reduce_cols":
            fixed, val = _cv(f["full_cols"])
        if kind in ("reduce_cols", "reduce_rows"):
            s = _pp(f["M"], tok)
            steps.append({"kind": kind, "rows": s["rows"], "cols": s["cols"], "fixed": fixed, "val": val})
    fx, vl = _cv(cc)
    out.append(dict(base, op="reduce_oneshot", full_rows=[proj.I(x) for x in numpy.asarray(rr).tolist()], fixed=fx, val=vl,
                    reduced=_pp(red, tok), steps=steps, after=_pp(P, tok), model=base))
    # the public sub-operations, through the class and through the module level aliases
    Q = _poly(case)
    use_alias = bool(case.get("k", 0) % 2)
    if case.get("k", 0) % 4 >= 2 and base["cols"] and base["rows"]:
        # queries and re-wrappings that must leave the polyhedron (its variables, its index) as it is
        try:
            Q.separable(numpy.zeros(len(base["cols"]), dtype=numpy.int64)); Q.ineqs_satisfied(numpy.zeros(len(base["cols"]), dtype=numpy.int64))
            Q.neglectable_columns(numpy.array([[1] + [0] * (len(base["cols"]) - 1)], dtype=numpy.int64))
            pnd.ge_polyhedron(Q); pnd.ge_polyhedron(Q, variables=[puan.variable("o%d" % j, (-7, 7)) for j in range(len(base["cols"]) + 1)])
        except Exception:
            pass
    r1 = pnd.reducable_rows(Q) if use_alias else Q.reducable_rows()
    c1 = pnd.reducable_columns_approx(Q) if use_alias else Q.reducable_columns_approx()
    fx, vl = _cv(c1)
    ac = pnd.reduce_columns(Q, c1) if use_alias else Q.reduce_columns(c1)
    ar = pnd.reduce_rows(Q, r1) if use_alias else Q.reduce_rows(r1)
    out.append(dict(base, op="reduce_ops", red_rows=[proj.I(x) for x in numpy.asarray(r1).tolist()], fixed=fx, val=vl,
                    after_cols=_pp(ac, tok), after_rows=_pp(ar, tok), after=_pp(Q, tok), model=base))
    if case.get("k", 0) % 3 == 0:
        # the domain of a column is changed on the queried object (new variable / Bounds edited in place): it answers for the new box
        for j, v in enumerate(list(Q.variables)[1:]):
            lo, hi = int(v.bounds.lower), int(v.bounds.upper)
            if hi > lo or case.get("k", 0) % 2:
                # (widened in most cases: answers kept from the narrower box would be unsound for the wider one)
                nlo, nhi = (lo, hi - 1) if (case.get("k", 0) % 4 == 0 and hi > lo) else ((lo - 1, hi) if case.get("k", 0) % 4 == 1 else (lo, hi + 1))
                if case.get("k", 0) % 2: Q.variables[j + 1] = puan.variable(v.id, (nlo, nhi))
                else: v.bounds.lower, v.bounds.upper = nlo, nhi
                b2 = _pp(Q, tok)
                r2, c2 = Q.reducable_rows(), Q.reducable_columns_approx()
                fx2, vl2 = _cv(c2)
                out.append(dict(b2, op="reduce_ops", red_rows=[proj.I(x) for x in numpy.asarray(r2).tolist()], fixed=fx2, val=vl2,
                                after_cols=_pp(Q.reduce_columns(c2), tok), after_rows=_pp(Q.reduce_rows(r2), tok), after=_pp(Q, tok), model=b2))
                break
    return out

def drv_tighten(case):
    import numpy
    tok = proj.Tok()
    P = _poly(case)
    base = _pp(P, tok)
    if case.get("default_vars"):
        # polyhedra declared WITHOUT variables get default boolean variables of their own: one of them is re-declared on a first
        # polyhedron, a second polyhedron of the same width is still over (0,1) columns
        import puan, puan.ndarray as pnd
        arr = numpy.array(case["rows"], dtype=numpy.int64).reshape(len(case["rows"]), -1)
        P0 = pnd.ge_polyhedron(arr.copy())
        if len(P0.variables) > 1:
            P0.variables[1].bounds = puan.Bounds(-2, 3)
            P0.column_bounds()
        P = pnd.ge_polyhedron(arr.copy())
        base = _pp(P, tok)
        for c in base["cols"]: c["lo"], c["hi"] = 0, 1            # what was declared
    out = []
    calls = ["tight", "rowb", "colb", "ncomb"]
    k = case.get("k", 0)
    if k % 5 == 2 and base["cols"] and not case.get("default_vars"):
        import puan, puan.ndarray as pnd
        try:
            pnd.ge_polyhedron(P); pnd.ge_polyhedron(P, variables=[puan.variable("o%d" % j, (-7, 7)) for j in range(len(base["cols"]) + 1)])
        except Exception:
            pass
    order = calls[k % 4:] + calls[:k % 4]
    for rnd in range(2):                      # the SAME object is queried twice, in a rotated order
        res = {}
        for c in order:
            if c == "tight": res[c] = [[proj.I(x) for x in row] for row in numpy.asarray(P.tighten_column_bounds()).tolist()]
            elif c == "rowb": res[c] = [[proj.I(x) for x in row] for row in numpy.asarray(P.row_bounds()).tolist()]
            elif c == "colb": res[c] = [[proj.I(x) for x in row] for row in numpy.asarray(P.column_bounds()).tolist()]
            else: res[c] = [proj.I(x) for x in numpy.asarray(P.n_row_combinations).tolist()]
        size = 1
        for c in base["cols"]: size *= c["hi"] - c["lo"] + 1
        out.append(dict(base, op="tighten", round=rnd, order=order, tight=res["tight"], rowb=res["rowb"], colb=res["colb"],
                        ncomb=res["ncomb"], after=_pp(P, tok), model=base, wide=size > 3000))
        if rnd == 0 and k % 3 == 0 and not case.get("bounds_dtype"):
            # between the two rounds a variable's Bounds object is edited in place: the second round is about the new box
            for v in list(P.variables)[1:]:
                if int(v.bounds.upper) > int(v.bounds.lower):
                    try:
                        if k % 2 or int(v.bounds.upper) >= 32767: v.bounds.upper = int(v.bounds.upper) - 1     # (the library's integer range ends at 32767)
                        else: v.bounds.upper = int(v.bounds.upper) + 1
                    except Exception:
                        break
                    base = _pp(P, tok)
                    break
    if k % 2 == 0 and base["rows"] and base["cols"] and not case.get("bounds_dtype") and not case.get("default_vars") and not case.get("dtype"):
        # polyhedra DERIVED from the queried one by numpy (reversed rows, negated, an edited copy): they answer for their own entries
        import puan.ndarray as pnd
        derived = [P[::-1], P * -1, P.copy()]
        derived[2][0, -1] += 1
        for Q in derived[(k // 2) % 3:][:2]:
            qb = _pp(pnd.ge_polyhedron(numpy.array(numpy.asarray(Q)), variables=list(P.variables)), tok)
            size = 1
            for c in qb["cols"]: size *= c["hi"] - c["lo"] + 1
            try:
                res = {"tight": [[proj.I(x) for x in row] for row in numpy.asarray(Q.tighten_column_bounds()).tolist()],
                       "rowb": [[proj.I(x) for x in row] for row in numpy.asarray(Q.row_bounds()).tolist()],
                       "colb": [[proj.I(x) for x in row] for row in numpy.asarray(Q.column_bounds()).tolist()],
                       "ncomb": [proj.I(x) for x in numpy.asarray(Q.n_row_combinations).tolist()]}
            except (KeyboardInterrupt, SystemExit): raise
            except BaseException as ex:
                out.append({"op": "exc", "exc": type(ex).__name__, "msg": str(ex)[:150], "where": "queries on a polyhedron derived by numpy from a queried one"}); continue
            out.append(dict(qb, op="tighten", round=2, order=calls, tight=res["tight"], rowb=res["rowb"], colb=res["colb"],
                            ncomb=res["ncomb"], after=qb, model=qb, wide=size > 3000))
    return out

def drv_poly_history(case):
    """a history of public calls on ONE live polyhedron object (machine PuanPolyAPI): case = {"init": {rows, cols, index}, "calls": [...]};
    every step records the call's result and the projected receiver; what the object should denote at each point is derived by
    TLC from the initial declaration and the recorded results (PuanPolyOps.PolyHistV), never re-read from the object"""
    import numpy, puan, puan.ndarray as pnd
    tok = proj.Tok()
    init = case["init"]
    k = case.get("k", 0)
    dt = [None, None, "int32", "int16"][k % 4]
    P = _poly({"rows": [[r["b"]] + list(r["a"]) for r in init["rows"]], "bounds": [[c["lo"], c["hi"]] for c in init["cols"]],
               "ids": [c["id"] for c in init["cols"]], "index": list(init["index"]), "k": k, "dtype": dt})
    for c in init["cols"]: tok(c["id"])
    for i in init["index"]: tok(i)
    use_alias = bool(k % 2)
    steps = []
    L = lambda x: numpy.asarray(x).tolist()
    I2 = lambda rows: [[proj.I(x) for x in r] for r in rows]
    for call in case["calls"]:
        st = {"call": call, "exc": "", "res": 0, "new": {"rows": [], "cols": [], "index": []}, "fixed": [], "val": [], "rflags": [],
              "points": [], "ndim": 1, "vars": [], "pshape": [], "rshape": []}
        try:
            cols = list(P.variables)[1:]
            if call == "A": st["res"] = I2(L(P.A)) if P.shape[0] else []
            elif call == "b": st["res"] = [proj.I(x) for x in L(P.b)]
            elif call == "to_linalg":
                A_, b_ = P.to_linalg()
                st["res"] = {"A": I2(L(A_)) if P.shape[0] else [], "b": [proj.I(x) for x in L(b_)]}
            elif call == "column_bounds": st["res"] = I2(L(P.column_bounds()))
            elif call == "row_bounds": st["res"] = I2(L(P.row_bounds()))
            elif call == "ncomb": st["res"] = [proj.I(x) for x in L(P.n_row_combinations)]
            elif call == "tighten": st["res"] = I2(L(P.tighten_column_bounds()))
            elif call == "red_rows":
                st["rflags"] = [proj.I(x) for x in L(pnd.reducable_rows(P) if use_alias else P.reducable_rows())]
            elif call == "red_cols":
                st["fixed"], st["val"] = _cv(pnd.reducable_columns_approx(P) if use_alias else P.reducable_columns_approx())
            elif call == "rr_and_c":
                rr, cc = P.reducable_rows_and_columns()
                st["rflags"] = [proj.I(x) for x in L(rr)]; st["fixed"], st["val"] = _cv(cc)
            elif call in ("sat", "sep", "rowsep"):
                lo = [int(v.bounds.lower) for v in cols]; hi = [int(v.bounds.upper) for v in cols]
                mid = [l if j % 2 else h for j, (l, h) in enumerate(zip(lo, hi))]
                pts = [lo, [[lo, hi], [mid, lo]], [[[lo, hi], [hi, mid]], [[mid, mid], [hi, lo]]], hi, [mid], [[[lo]], [[hi]]], [[[hi]]]][(k + len(steps)) % 7]
                arr = numpy.array(pts, dtype=numpy.int64)
                fn = {"sat": P.ineqs_satisfied, "sep": P.separable, "rowsep": P.ineq_separate_points}[call]
                r = numpy.asarray(fn(arr))
                st["points"], st["ndim"] = pts, int(arr.ndim)
                st["pshape"], st["rshape"] = [int(x) for x in arr.shape], [int(x) for x in r.shape]
                st["res"] = proj.I(r) if r.ndim == 0 else _nest((r * 1).tolist())
            elif call == "idx":
                st["vars"] = [{"id": tok(v.id), "lo": proj.I(v.bounds.lower), "hi": proj.I(v.bounds.upper)} for v in list(P.variables)]
                st["res"] = {"b": [proj.I(x) for x in L(P.boolean_variable_indices)], "i": [proj.I(x) for x in L(P.integer_variable_indices)]}
            elif call == "copy": st["res"] = _pp(P.copy(), tok)
            elif call == "rewrap": st["res"] = _pp(pnd.ge_polyhedron(P, variables=list(P.variables), index=list(P.index)), tok)
            elif call == "neglectable":
                if P.shape[0] and P.shape[1] > 1: P.neglectable_columns(numpy.array([[1] + [0] * (P.shape[1] - 2)], dtype=numpy.int64))
            elif call in ("reduce_cols", "reduce_cols_q"):
                cv = pnd.reducable_columns_approx(P) if use_alias else P.reducable_columns_approx()
                st["fixed"], st["val"] = _cv(cv)
                Q = pnd.reduce_columns(P, cv) if use_alias else P.reduce_columns(cv)
            elif call in ("reduce_rows", "reduce_rows_q"):
                rv = pnd.reducable_rows(P) if use_alias else P.reducable_rows()
                st["rflags"] = [proj.I(x) for x in L(rv)]
                Q = pnd.reduce_rows(P, rv) if use_alias else P.reduce_rows(rv)
            elif call in ("reduce_both", "reduce_both_q"):
                rr, cc = P.reducable_rows_and_columns()
                st["rflags"] = [proj.I(x) for x in L(rr)]; st["fixed"], st["val"] = _cv(cc)
                Q = P.reduce(rr, cc)
            elif call == "assign_lo":
                Q = P.reduce(columns_vector=numpy.array([int(v.bounds.lower) for v in cols], dtype=float))
            elif call == "drop_none":
                Q = P.reduce(rows_vector=numpy.zeros(P.shape[0], dtype=numpy.int64))
            elif call == "edit": P[0, -1] += 1
            elif call == "widen":
                v = list(P.variables)[-1]
                if k % 2: P.variables[-1] = puan.variable(v.id, (int(v.bounds.lower), int(v.bounds.upper) + 1))
                else: v.bounds.upper = int(v.bounds.upper) + 1
            else: raise ValueError("unknown call " + call)
        except (KeyboardInterrupt, SystemExit): raise
        except BaseException as ex:
            st["exc"] = type(ex).__name__; st["after"] = _pp(P, tok); steps.append(st); break
        st["after"] = _pp(P, tok)
        if call in ("reduce_cols", "reduce_rows", "reduce_both", "reduce_cols_q", "reduce_rows_q", "reduce_both_q", "assign_lo", "drop_none"):
            st["new"] = _pp(Q, tok)
            if call in ("reduce_cols", "reduce_rows", "reduce_both"): P = Q                           # the caller goes on with the returned polyhedron
        steps.append(st)
    return [{"op": "poly_history", "init": {"rows": init["rows"], "cols": [{"id": tok(c["id"]), "lo": c["lo"], "hi": c["hi"]} for c in init["cols"]],
                                             "index": [tok(i) for i in init["index"]]}, "steps": steps}]

def _nest(a):
    import numpy
    return [[proj.I(x) for x in r] if isinstance(r, list) and (not r or not isinstance(r[0], list)) else _nest(r) for r in a] \
        if a and isinstance(a[0], list) else [proj.I(x) for x in a]

def drv_classify(case):
    import numpy, puan.ndarray as pnd
    tok = proj.Tok()
    P = _poly(case)
    base = _pp(P, tok)
    out = []
    narrow = {"int8": numpy.int8, "int16": numpy.int16, "int32": numpy.int32}.get(case.get("dtype"))
    def lst(x):
        x = numpy.asarray(x)
        return proj.I(x) if x.ndim == 0 else _nest((x * 1).tolist())
    def classify(Q, qbase, pts, k):
        arr0 = numpy.array(pts, dtype=numpy.int64)
        # the points in several integer dtypes; 0/1 points also as a bool array
        dts = [numpy.int64, numpy.int32, numpy.int8] if narrow is None else [narrow, narrow, numpy.int64]
        if arr0.size and (arr0.min() < -128 or arr0.max() > 127): dts = [numpy.int64, numpy.int32]       # points that only wide types hold
        if arr0.size and arr0.min() >= 0 and arr0.max() <= 1: dts.append(numpy.bool_)
        arr = arr0.astype(dts[k % len(dts)])
        order = [("sat", Q.ineqs_satisfied), ("sep", Q.separable), ("rowsep", Q.ineq_separate_points)]
        order = order[k % 3:] + order[:k % 3]            # the three queries in rotating order on the same object
        raw = {name: numpy.asarray(fn(arr)) for name, fn in order}
        res = {name: lst(v) for name, v in raw.items()}
        # the shapes are recorded as well: an answer of another shape is judged by its shape (values of different shapes cannot be compared)
        out.append({"op": "classify", "rows": qbase["rows"], "cols": qbase["cols"], "ndim": int(arr.ndim), "points": pts,
                    "sat": res["sat"], "sep": res["sep"], "rowsep": res["rowsep"], "dtype": str(arr.dtype), "pshape": [int(x) for x in arr.shape],
                    "shapes": {name: [int(x) for x in v.shape] for name, v in raw.items()}})
    if case.get("k", 0) % 3 == 1 and base["cols"] and base["rows"]:
        # other public operations on the same polyhedron first (their results are not used): it still answers for its own rows
        cv = numpy.full(len(base["cols"]), numpy.nan)
        j = next((j for j, c in enumerate(base["cols"]) if c["hi"] != 0 and any(r["a"][j] for r in base["rows"])), None)
        if j is not None:
            cv[j] = base["cols"][j]["hi"]
            try:
                P.reduce_columns(cv); P.reduce_rows(numpy.zeros(len(base["rows"])))
                P.neglectable_columns(numpy.array([[1] + [0] * (len(base["cols"]) - 1)], dtype=numpy.int64))
                P.separable(numpy.zeros(len(base["cols"]), dtype=numpy.int64)); P.column_bounds(); P.row_bounds()
            except Exception:
                pass
    for k, pts in enumerate(case["points"]):
        classify(P, base, pts, k + case.get("k", 0))
    if case.get("k", 0) % 2 == 0 and base["cols"] and case["points"]:
        # groups that hold exactly one point: the shape still follows the input
        flat1 = [p for p in case["points"] if p and not isinstance(p[0], list) and len(p) == len(base["cols"])]
        if flat1:
            classify(P, base, [flat1[0]], case.get("k", 0))
            classify(P, base, [[flat1[0]], [flat1[-1]]], case.get("k", 0) + 1)
            classify(P, base, [[flat1[-1]]], case.get("k", 0) + 2)
    if case.get("k", 0) % 4 == 0 and base["cols"]:
        # empty groups of points: nothing is separated, nothing is listed
        n = len(base["cols"])
        for shape, pts in (((0, n), []), ((2, 0, n), [[], []])):
            arr = numpy.zeros(shape, dtype=numpy.int64)
            try:
                res = {"sat": lst(P.ineqs_satisfied(arr)), "sep": lst(P.separable(arr)), "rowsep": lst(P.ineq_separate_points(arr))}
            except (KeyboardInterrupt, SystemExit): raise
            except BaseException as ex:
                out.append({"op": "exc", "exc": type(ex).__name__, "msg": str(ex)[:150], "where": "classification of an empty group of points"}); continue
            if len(shape) == 3:
                res["sat"] = [x if isinstance(x, list) else [] for x in (res["sat"] or [[], []])]; res["sep"] = [x if isinstance(x, list) else [] for x in (res["sep"] or [[], []])]
            out.append({"op": "classify", "rows": base["rows"], "cols": base["cols"], "ndim": len(shape), "points": pts,
                        "sat": res["sat"], "sep": res["sep"], "rowsep": res["rowsep"], "dtype": "int64", "empty": True})
    if case.get("k", 0) % 3 == 0 and base["cols"] and base["rows"] and case["points"]:
        # a stack of stacks of points (4-D): the answers follow the input shape
        flat = [p for g in case["points"] for p in (g if g and isinstance(g[0], list) and not (g[0] and isinstance(g[0][0], list)) else [])]
        flat = [p for p in flat if len(p) == len(base["cols"])]
        if len(flat) >= 2:
            g1 = [flat[:2], flat[-2:]]
            pts4 = [g1, [flat[-2:], flat[:2]], g1] if case.get("k", 0) % 2 else [g1, [flat[-2:], flat[:2]]]
            classify(P, base, pts4, case.get("k", 0))
    if case.get("k", 0) % 5 == 0 and base["cols"] and base["rows"]:
        # every column given a value: what is left has rows and no columns (each row reads 0 >= b'); points of width 0 in every shape
        for corner in ("lo", "hi"):
            try:
                Z = P.reduce_columns(numpy.array([c[corner] for c in base["cols"]], dtype=float))
                zb = _pp(Z, tok)
                if zb["cols"]: continue
                for pts in ([], [[], []], [[[], []], [[], []]]):
                    classify(Z, zb, pts, case.get("k", 0))
                    out[-1]["ndim"] = 1 + (len(pts) > 0) + (len(pts) > 0 and len(pts[0]) > 0)
            except (KeyboardInterrupt, SystemExit): raise
            except BaseException as ex:
                out.append({"op": "exc", "exc": type(ex).__name__, "msg": str(ex)[:150], "where": "classification of zero-width points after every column was given a value"})
    # polyhedra DERIVED from an already queried one (numpy views / arithmetic / edited copies) must answer for their own rows
    if len(base["rows"]) >= 1 and case["points"]:
        derived = [P[::-1], P * 2, P.copy()]
        derived[2][0, 0] += 1
        for j, Q in enumerate(derived):
            qb = _pp(pnd.ge_polyhedron(numpy.asarray(Q), variables=list(P.variables)), tok)
            classify(Q, qb, case["points"][j % len(case["points"])], j + case.get("k", 0))
        # the queried polyhedron itself, edited in place afterwards: it answers for what it is now
        v = int(numpy.asarray(P)[0, -1]) + 1
        if narrow is None or v <= numpy.iinfo(narrow).max:
            P[0, -1] += 1
            pb = _pp(P, tok)
            for k, pts in enumerate(case["points"]):
                classify(P, pb, pts, k + 1 + case.get("k", 0))
    return out

def _real_id(x):
    """spec id tokens -> real ids of various Python types (non-string and unicode ids are legitimate)"""
    return {"n7": 7, "uml": "üß", "fz": frozenset({"q"}), "n1": 1, "s1": "1", "nul": "a\x00", "tp": ("t", 1), "tq": ("t", 2)}.get(x, x)

def drv_bridge(case):
    import numpy, puan, puan.ndarray as pnd
    tok = proj.Tok()
    vs = [puan.variable(_real_id(v["id"]), (v["lo"], v["hi"])) for v in case["vars"]]
    pv = [{"id": tok(v.id), "lo": proj.I(v.bounds.lower), "hi": proj.I(v.bounds.upper)} for v in vs]
    arr = pnd.variable_ndarray(numpy.zeros((1, len(vs)), dtype=numpy.int64), variables=vs)
    d = {_real_id(k): v for k, v in case["dict"].items()}
    out = []
    for kind in ("lower", "nan", "fn", "fn_float", "lower32"):
        if kind == "lower":
            res = arr.construct(dict(d)); fn = {}
        elif kind == "lower32":
            res = arr.construct(dict(d), dtype=numpy.int32); fn = {}
        elif kind == "nan":
            res = arr.construct(dict(d), dtype=numpy.float64); fn = {}
        elif kind == "fn_float":
            fn = {v.id: 20 + j for j, v in enumerate(vs)}
            res = arr.construct(dict(d), default_value=lambda v: fn[v.id], dtype=numpy.float64)
        else:
            fn = {v.id: 10 + j for j, v in enumerate(vs)}
            res = arr.construct(dict(d), default_value=lambda v: fn[v.id])
        r = [[1, 0] if (isinstance(x, float) and x != x) else [0, proj.I(x)] for x in numpy.asarray(res).tolist()]
        out.append({"op": "construct", "vars": pv, "dict": [[tok(k), proj.I(v)] for k, v in d.items()], "kind": {"fn_float": "fn", "lower32": "lower"}.get(kind, kind),
                    "fnvals": [[tok(k), v] for k, v in fn.items()], "res": r, "dtype": str(numpy.asarray(res).dtype)})
    # the SAME dictionary object passed to several construct() calls (other dtype, other default): it is only read
    dd = dict(d)
    arr.construct(dd, dtype=numpy.float64); arr.construct(dd, default_value=lambda v: 77)
    res_dd = arr.construct(dd)
    out.append({"op": "construct", "vars": pv, "dict": [[tok(k), proj.I(v)] for k, v in d.items()], "kind": "lower", "fnvals": [],
                "res": [[0, proj.I(x)] for x in numpy.asarray(res_dd).tolist()], "dtype": str(numpy.asarray(res_dd).dtype), "same_dict": True})
    out.append({"op": "construct", "vars": pv, "dict": [[tok(k), proj.I(v)] for k, v in dd.items()], "kind": "lower", "fnvals": [],
                "res": [[0, proj.I(x)] for x in numpy.asarray(arr.construct(dict(d))).tolist()], "dtype": "int64", "dict_after": True})
    # dictionaries that answer for missing keys themselves (Counter, defaultdict): an id that was not GIVEN still gets the declared default,
    # and the caller's dictionary is only read
    import collections
    for mk_, tag in ((lambda: collections.Counter(d), "counter"), (lambda: collections.defaultdict(lambda: 99, d), "defaultdict")):
        for kw, kind, fn in (({}, "lower", {}), ({"dtype": numpy.float64}, "nan", {}), ({"default_value": (lambda v: 40 + len(str(v.id)))}, "fn", {v.id: 40 + len(str(v.id)) for v in vs})):
            dx = mk_()
            res = arr.construct(dx, **kw)
            r = [[1, 0] if (isinstance(x, float) and x != x) else [0, proj.I(x)] for x in numpy.asarray(res).tolist()]
            out.append({"op": "construct", "vars": pv, "dict": [[tok(k), proj.I(v)] for k, v in d.items()], "kind": kind, "fnvals": [[tok(k), v] for k, v in fn.items()],
                        "res": r, "dtype": str(numpy.asarray(res).dtype), "mapping": tag})
            out.append({"op": "construct", "vars": pv, "dict": [[tok(k), proj.I(v)] for k, v in dict(dx).items()], "kind": "lower", "fnvals": [],
                        "res": [[0, proj.I(x)] for x in numpy.asarray(arr.construct(dict(d))).tolist()], "dtype": "int64", "dict_after": True, "mapping": tag})
    out.append({"op": "partition", "vars": pv, "bool_idx": [proj.I(x) for x in numpy.asarray(arr.boolean_variable_indices).tolist()],
                "int_idx": [proj.I(x) for x in numpy.asarray(arr.integer_variable_indices).tolist()]})
    # the same two sets asked for with the plain-string / numpy-string spelling of the dtype (puan.Dtype is a str enum)
    out.append({"op": "partition", "vars": pv, "bool_idx": [proj.I(x) for x in numpy.asarray(arr.variable_indices("bool")).tolist()],
                "int_idx": [proj.I(x) for x in numpy.asarray(arr.variable_indices(numpy.str_("int"))).tolist()], "spelling": "str"})
    # variables handed over as a numpy array, which the caller goes on using: the array keeps ITS variables
    va = numpy.empty(len(vs), dtype=object)
    for j, v in enumerate(vs): va[j] = v
    arr2 = pnd.variable_ndarray(numpy.zeros((1, len(vs)), dtype=numpy.int64), variables=va)
    arr3 = pnd.variable_ndarray(numpy.zeros((1, len(vs)), dtype=numpy.int64), variables=arr2.variables)
    va[0] = puan.variable("other", (-7, 7))
    arr3.variables[-1] = puan.variable("other2", (3, 9))
    out.append({"op": "partition", "vars": pv, "bool_idx": [proj.I(x) for x in numpy.asarray(arr2.boolean_variable_indices).tolist()],
                "int_idx": [proj.I(x) for x in numpy.asarray(arr2.integer_variable_indices).tolist()], "spelling": "shared_array"})
    res2 = arr2.construct(dict(d))
    out.append({"op": "construct", "vars": pv, "dict": [[tok(k), proj.I(v)] for k, v in d.items()], "kind": "lower", "fnvals": [],
                "res": [[0, proj.I(x)] for x in numpy.asarray(res2).tolist()], "dtype": str(numpy.asarray(res2).dtype), "shared_array": True})
    ctx = [v.id for v in vs]
    lst = [_real_id(x) for x in case["list"]]
    lsts = [lst, list(reversed(lst)), lst[:1]]
    tuple_first = bool(lst) and isinstance(lst[0], tuple)      # boolean from_list documents a tuple as a nested row, integer from_list does not
    b1 = pnd.boolean_ndarray.from_list(lst, ctx) if (lst and not tuple_first) else None
    i1 = pnd.integer_ndarray.from_list(lst, ctx) if lst else None
    if lst and not tuple_first and len(case["vars"]) % 2:
        # the list given as variable OBJECTS (declared with other bounds than the context's variables: a variable is its id)
        lobj = [puan.variable(x, (-3, 9)) for x in lst]
        sel_ = (len(lst) + len(str(lst[0]))) % 3
        if sel_ == 0:                                      # objects on both sides
            b1 = pnd.boolean_ndarray.from_list(lobj, list(vs)); i1 = pnd.integer_ndarray.from_list(lobj, list(vs))
        elif sel_ == 1:                                    # objects in the list, bare ids (strings, numbers, ...) in the context
            b1 = pnd.boolean_ndarray.from_list(lobj, list(ctx)); i1 = pnd.integer_ndarray.from_list(lobj, list(ctx))
        else:                                              # bare ids in the list, objects in the context
            b1 = pnd.boolean_ndarray.from_list(list(lst), list(vs)); i1 = pnd.integer_ndarray.from_list(list(lst), list(vs))
    ev = {"op": "lists", "vars": pv, "ctx": [tok(x) for x in ctx], "lst": [tok(x) for x in lst],
          "bool_ok": not tuple_first,
          "bool_arr": [proj.I(x) for x in numpy.asarray(b1).tolist()] if b1 is not None else [0] * len(ctx),
          "int_arr": [proj.I(x) for x in numpy.asarray(i1).tolist()] if lst else [0] * len(ctx)}
    if not lst:
        ev["bool_arr"] = [0] * len(ctx); ev["int_arr"] = [0] * len(ctx)
        ev["empty_bool"] = numpy.asarray(pnd.boolean_ndarray.from_list([], ctx)).tolist() == []
    nl = [l for l in lsts if l and not any(isinstance(x, tuple) for x in l)]
    if nl:
        bn = pnd.boolean_ndarray.from_list([list(l) for l in nl], ctx)
        inn = pnd.integer_ndarray.from_list([list(l) for l in nl], ctx)
        ev["lsts"] = [[tok(x) for x in l] for l in nl]
        ev["bool_nested"] = _nest(numpy.asarray(bn).tolist()); ev["int_nested"] = _nest(numpy.asarray(inn).tolist())
    else:
        ev["lsts"] = []; ev["bool_nested"] = []; ev["int_nested"] = []
    # to_list: the variables at the 1-entries
    bits = [case["bits"][j % len(case["bits"])] for j in range(len(vs))] if case.get("bits") else [1] * len(vs)
    ba = pnd.boolean_ndarray(numpy.array(bits, dtype=numpy.int64), variables=vs)
    ev["arr"] = bits
    ev["to_list"] = [tok(v.id) for v in ba.to_list()]
    arrs = [bits, [1 - x for x in bits]]
    ba2 = pnd.boolean_ndarray(numpy.array(arrs, dtype=numpy.int64), variables=vs)
    ev["arrs"] = arrs
    ev["to_list_nested"] = [[tok(v.id) for v in l] for l in ba2.to_list()]
    # a matrix without a single 1: still one (empty) list per row
    zarrs = [[0] * len(vs), [0] * len(vs)]
    ev["zarrs"] = zarrs
    ev["to_list_zero"] = [[tok(v.id) for v in l] for l in pnd.boolean_ndarray(numpy.array(zarrs, dtype=numpy.int64), variables=vs).to_list()]
    out.append(ev)
    # A / b split of a polyhedron over these variables (first one plays the support column)
    if len(vs) >= 2:
        mat = [[(3 * i + 2 * j) % 5 - 2 for j in range(len(vs))] for i in range(2)]
        P = pnd.ge_polyhedron(numpy.array(mat, dtype=numpy.int64), variables=vs, index=[puan.variable("r1"), puan.variable("r2")])
        dt = [numpy.int64, numpy.int32, numpy.int16][len(vs) % 3]
        P = pnd.ge_polyhedron(numpy.array(mat, dtype=dt), variables=vs, index=[puan.variable("r1"), puan.variable("r2")], dtype=dt)
        _ = P.A, P.b                      # read once, edit a coefficient in place, read again: A and b must follow the matrix
        # arrays derived from a polyhedron whose index sets have been asked: they partition THEIR OWN columns
        _ = P.boolean_variable_indices, P.integer_variable_indices
        for X, xv in ((P.A, pv[1:]), (pnd.ge_polyhedron(P, variables=vs), pv), (P.to_linalg()[0], pv[1:]), (pnd.integer_ndarray(P[:, 1:], variables=vs[1:]), pv[1:])):
            out.append({"op": "partition", "vars": xv, "bool_idx": [proj.I(x) for x in numpy.asarray(X.boolean_variable_indices).tolist()],
                        "int_idx": [proj.I(x) for x in numpy.asarray(X.integer_variable_indices).tolist()], "spelling": "derived"})
        P[0, 1] += 1
        mat = [list(r) for r in mat]; mat[0][1] += 1
        A, b = P.A, P.b
        lA, lb = P.to_linalg()
        a_vars = [[tok(v.id) for v in getattr(X, "variables", [])] for X in (A, lA)]
        out.append({"op": "split_Ab", "matrix": mat, "vars": [x["id"] for x in pv], "index": [tok("r1"), tok("r2")],
                    "A": _nest(numpy.asarray(A).tolist()), "b": [proj.I(x) for x in numpy.asarray(b).tolist()],
                    "A_vars": [tok(v.id) for v in list(A.variables)], "A_index": [tok(v.id) for v in list(A.index)],
                    "linalg_A": _nest(numpy.asarray(lA).tolist()), "linalg_b": [proj.I(x) for x in numpy.asarray(lb).tolist()],
                    "linalg_A_vars": a_vars[1]})
    return out

# ============================================================================= priorities, objectives, solver bridge (C13-C15)
METHODS = ["first", "last", "min", "max", "prio", "rank", "shadow"]

def drv_compress(case):
    import numpy, puan.ndarray as pnd
    x, kind = case["x"], case["kind"]
    # priorities handed over as a numpy array of a narrower integer type (an explicit one, or by rotation when the values fit)
    flat_vals = numpy.asarray(x, dtype=object).flatten().tolist()
    dts = [numpy.int64, numpy.int32, numpy.int64, numpy.int16, numpy.int64, numpy.int8]
    dt = {"int8": numpy.int8, "int16": numpy.int16, "int32": numpy.int32}.get(case.get("dtype")) or dts[(len(json.dumps(x)) // 2) % 6]
    if flat_vals and (min(flat_vals) < numpy.iinfo(dt).min or max(flat_vals) > numpy.iinfo(dt).max): dt = numpy.int64
    base = numpy.array(x, dtype=dt)
    lay = case.get("layout", "C")             # the same logical array in another memory layout
    if lay == "T" and base.ndim == 2: base = numpy.ascontiguousarray(base.T).T
    if lay == "F" and base.ndim >= 2: base = numpy.asfortranarray(base)
    arr = pnd.integer_ndarray(base)
    axis = {"2d0": 0, "2d1": 1, "flat": None, "3d0": 0, "flat0": 0}[kind]
    methods = METHODS
    if kind == "flat0":
        # a vector with the axis named explicitly: judged for the methods whose answer on the pinned tree is the documented compression
        # of the vector (min / max reduce to a scalar there, prio ranks: see DESIGN 15.5, C13-14)
        methods, kind = ["first", "last", "shadow"], "flat"
    big = bool(numpy.abs(numpy.asarray(x, dtype=object)).max() >= 2 ** 31) if numpy.asarray(x).size else False
    rot = (len(json.dumps(x)) + len(kind)) % len(methods)          # the same array object serves all methods, in a rotating order
    def one_event(x):
        runs = []
        xs = x
        if kind == "flat":
            xs = numpy.asarray(x).flatten().tolist()
        ren = None
        if big:
            # prio / rank / shadow depend only on signs, zeros and the ORDER of the magnitudes: the magnitudes are renamed by their
            # dense rank (an order isomorphism) so that TLC can read them; the recorded results of these methods are left as they are.
            # first / last / min / max return input values: their results are renamed with the same map (a value that is no input
            # value gets a name no input value has)
            mags = sorted({abs(int(v)) for v in numpy.asarray(xs, dtype=object).flatten().tolist() if v != 0})
            rank = {v: i + 1 for i, v in enumerate(mags)}
            def ren(v):
                if isinstance(v, list): return [ren(i) for i in v]
                v = int(v)
                return 0 if v == 0 else (rank.get(abs(v), len(mags) + 7) * (1 if v > 0 else -1))
        for m in methods[rot:] + methods[:rot]:
            if rot % 2:
                r = pnd.ndint_compress(arr, method=m, axis=axis) if axis is not None else pnd.ndint_compress(arr, method=m)      # module level alias
            else:
                r = arr.ndint_compress(method=m, axis=axis) if axis is not None else arr.ndint_compress(method=m)
            rl = numpy.asarray(r).tolist()
            runs.append({"m": m, "r": ren(rl) if (big and m not in ("prio", "rank", "shadow")) else _nest(rl)})
        return {"op": "compress", "kind": kind, "x": ren(xs) if big else xs, "runs": runs, "renamed": big}
    out = [one_event(x)]
    sel = (len(json.dumps(x)) // 3) % 6
    if not big and arr.size and sel < 4:
        # the array is edited in place (not through an item assignment on the object itself) and compressed again: the answers are
        # about what it holds now
        try:
            if sel == 0: arr *= -1
            elif sel == 1: numpy.negative(arr, out=arr)
            elif sel == 2 and arr.ndim == 2: arr.T[-1, 0] = (int(arr.T[-1, 0]) + 3) if int(arr.T[-1, 0]) != -3 else 5
            elif sel == 3 and arr.ndim == 2: arr[0].fill(0)
            else: arr += (numpy.asarray(arr) != 0)
            out.append(dict(one_event(numpy.asarray(arr).tolist()), edited=sel))
        except (KeyboardInterrupt, SystemExit): raise
        except BaseException as ex:
            out.append({"op": "exc", "exc": type(ex).__name__, "msg": str(ex)[:150], "where": "compression of an array edited in place"})
    return out

def _recv(call, tok):
    P = call["polyhedron"]
    pp = proj.cfgpoly(P, tok)
    return {"rows": pp["rows"], "cols": pp["cols"], "dpv": pp["dpv"], "objectives": [[proj.I(v) for v in o] for o in call["objectives"]]}

def _box_of_cols(cols):
    n = 1
    for c in cols: n *= c["hi"] - c["lo"] + 1
    return n

def drv_select(case):
    """StingyConfigurator.select with harness solvers; case: recipe (Cfg), prios (list of dicts over tokens = real ids), solver, only_leafs"""
    import puan, puan.ndarray as pnd
    from . import solvers
    if case.get("via_add"):
        # the configurator is built from all rules but the last, queried, and then extended by add(): by the design (PuanAPI.Add)
        # the result is the configurator the whole recipe denotes
        r0 = dict(case["recipe"]); r0["a"] = list(case["recipe"]["a"][:-1])
        m0 = B.build(r0, style=case.get("style", 0))
        try:
            m0.default_prios; m0.ge_polyhedron; list(m0.select({}, solver=solvers.Capture("capture"))); m0.leafs()
            m = m0.add(B.build(case["recipe"]["a"][-1], style=case.get("style", 0)))
        except (KeyboardInterrupt, SystemExit): raise
        except BaseException as ex:
            return [{"op": "exc", "exc": type(ex).__name__, "msg": str(ex)[:150], "where": "configurator built by add() after queries"}]
    else:
        m = _mk(case)
    if proj.is_var(m): return []            # the domain (well defined, consistent tags) is decided by TLC on the projection
    if m.errors():
        # a model the library's own validation rejects may make the library raise: that is not recorded (TLC still decides
        # the domain of every recorded event; models with one definition under two classes are rejected by errors() but well defined)
        try:
            m.ge_polyhedron
        except BaseException:
            return []
    tok = proj.Tok()
    pm = proj.node(m, tok)
    out = []
    import numpy as _np
    runs = [(None, prios, mode, only_leafs) for prios in case["prios_list"] for mode in case.get("solvers", ["capture", "exact", "none", "raise", "mixed"])
            for only_leafs in case.get("leaf_opts", (False, True))]
    # the configurator's polyhedron stored as int8 (as from_b64 or a user may have it) serves requests with several priority levels
    try:
        P0_ = m.ge_polyhedron
        M_ = _np.asarray(P0_)
        lids_ = [v.id for v in proj.leaves(m)]
        if M_.size and M_.min() >= -128 and M_.max() <= 127 and len(lids_) >= 2:
            P8 = pnd.ge_polyhedron_config(M_.astype(_np.int8), default_prio_vector=_np.array(P0_.default_prio_vector), variables=list(P0_.variables),
                                          index=list(P0_.index), dtype=_np.int8)
            lv3 = {lids_[0]: 3, lids_[1]: -2, lids_[-1]: 1} if len(lids_) > 2 else {lids_[0]: 3, lids_[1]: -2}
            lvn = {i: (k + 1) * (-1 if k % 3 == 2 else 1) for k, i in enumerate(lids_[:7])}        # one level per item: the weights leave int8
            runs += [(P8, [lv3], "capture", False), (P8, [{lids_[-1]: 4, lids_[0]: -3}, {}], "capture", False), (P8, [lvn], "capture", False)]
    except BaseException:
        pass
    for narrow, prios, mode, only_leafs in runs:
        if True:
            if mode == "raise" and only_leafs: continue
            cfg = m                                   # the SAME configurator object serves every request (history)
            direct = proj.cfgpoly(cfg.ge_polyhedron if narrow is None else narrow, tok)
            if mode == "exact" and _box_of_cols(direct["cols"]) > (1 << 12): continue
            s = solvers.Capture(mode)
            exc, reported = "", []
            try:
                np_prios = [{k: (_np.int64(v) if (j + len(p)) % 2 else int(v)) for k, v in p.items()} for j, p in enumerate(prios)]
                res = list(cfg.select(*np_prios, solver=s, only_leafs=only_leafs)) if narrow is None else list(narrow.select(*np_prios, solver=s))
                reported = [[[tok(k), proj.I(v)] for k, v in r.items()] if isinstance(r, dict) else [[tok(k), proj.I(v)] for k, v in r[0].items()] for r in res]
            except Exception as ex:
                exc = type(ex).__name__
            called = bool(s.calls)
            rc = _recv(s.calls[0], tok) if called else {"rows": [], "cols": [], "dpv": [], "objectives": []}
            returned = []
            if called and mode != "raise":
                for sol in s.calls[0].get("answers", []):
                    returned.append({"none": sol[0] is None, "x": [proj.I(v) for v in sol[0]] if sol[0] is not None else []})
            enum = False
            if called and _box_of_cols(rc["cols"]) <= (1 << 10):
                # all-pairs ranking is quadratic in the number of feasible points: enumerate only while there are few
                import itertools, numpy
                P0 = s.calls[0]["polyhedron"]
                A_, b_ = numpy.asarray(P0.A), numpy.asarray(P0.b)
                pts_ = numpy.array(list(itertools.product(*[range(c["lo"], c["hi"] + 1) for c in rc["cols"]])), dtype=numpy.int64).reshape(-1, len(rc["cols"]))
                enum = int(((pts_ @ A_.T >= b_).all(axis=1)).sum()) <= 120
            out.append({"op": "select", "recipe": B.recipe_tokens(case["recipe"], tok), "model": pm,
                        "prios": [[[tok(k), proj.I(v)] for k, v in p.items()] for p in prios], "solver": mode, "only_leafs": only_leafs,
                        "called": called, "received": rc, "direct": {"rows": direct["rows"], "cols": direct["cols"], "dpv": direct["dpv"]},
                        "returned": returned, "reported": reported, "exc": exc, "enum": enum, "spec_ok": bool(case.get("spec_ok", True)),
                        "after": proj.node(m, tok), "narrow": narrow is not None})
    return out

def drv_solve(case):
    """AtLeast.solve(objectives, solver=callable) on a model; case: recipe, objectives (list of dicts), include_virtual"""
    import puan
    from . import solvers
    m = _mk(case)
    if not _valid(m): return []
    tok = proj.Tok()
    pm = proj.node(m, tok)
    out = []
    for objs in case["objectives_list"]:
        for mode in case.get("solvers", ["capture", "exact", "none", "mixed"]):
            for incl, red in ((False, False), (True, False)) + (((True, True), (False, True)) if mode == "capture" else ()):
                # red: try_reduce_before=True - the solver gets the polyhedron reduced by the encoder; ids and entries must still be aligned
                try:
                    direct = proj.cfgpoly(m.to_ge_polyhedron(active=True, reduced=red), tok)
                except BaseException:
                    continue
                if mode == "exact" and _box_of_cols(direct["cols"]) > (1 << 12): continue
                s = solvers.Capture(mode)
                exc, reported = "", []
                try:
                    res = list(m.solve([dict(o) for o in objs], solver=s, include_virtual_variables=incl, try_reduce_before=red))
                    reported = [[[tok(k), proj.I(v)] for k, v in r[0].items()] for r in res]
                except Exception as ex:
                    exc = type(ex).__name__
                if not s.calls:
                    out.append({"op": "solve", "model": pm, "recipe": B.recipe_tokens(case["recipe"], tok), "exc": exc or "solver_not_called", "received": {"rows": [], "cols": [], "objectives": []},
                                "direct": {"rows": [], "cols": []}, "objectives": [], "returned": [], "reported": [], "include_virtual": incl,
                                "solver": mode, "enum": False, "reduced": red})
                    continue
                rc = _recv(s.calls[0], tok)
                returned = []
                for sol in s.calls[0].get("answers", []):
                    returned.append({"none": sol[0] is None, "x": [proj.I(v) for v in sol[0]] if sol[0] is not None else []})
                out.append({"op": "solve", "model": pm, "recipe": B.recipe_tokens(case["recipe"], tok), "objectives": [[[tok(k), proj.I(v)] for k, v in o.items()] for o in objs],
                            "solver": mode, "include_virtual": incl, "received": {"rows": rc["rows"], "cols": rc["cols"], "objectives": rc["objectives"]},
                            "direct": {"rows": direct["rows"], "cols": direct["cols"]}, "returned": returned, "reported": reported, "exc": exc,
                            "enum": (not red) and _box_of_cols(rc["cols"]) <= (1 << 10), "after": proj.node(m, tok), "reduced": red})
    return out

# ============================================================================= call histories (C09, C18)
import hashlib as _hashlib

STATE_OPS = ("evaluate", "evaluate_all", "assume", "reduce", "negate", "errors", "flags", "flatten", "to_poly")

def _abs_call(obj, op, d, rule, tok, case):
    """performs one public call on obj; returns (abstract result JSON-able, new object or None)"""
    import puan, puan.logic.plog as pg
    from . import solvers
    # value forms rotate: a constant as an integer, as a (v, v) tuple, as a Bounds object; proper ranges as tuple or Bounds
    D = {}
    for j, (k_, v) in enumerate(sorted((d or {}).items(), key=lambda kv: str(kv[0]))):
        f = (len(d) + j) % 3
        if v[0] != v[1]: D[k_] = tuple(v) if f else puan.Bounds(int(v[0]), int(v[1]))
        else: D[k_] = int(v[0]) if f == 2 else ((int(v[0]), int(v[0])) if f == 0 else puan.Bounds(int(v[0]), int(v[0])))
    if op == "evaluate":
        return proj.bounds(obj.evaluate(dict(D))), None
    if op == "evaluate_all":
        return sorted(proj.pairs_iv(obj.evaluate_propositions(dict(D)), tok)), None
    if op == "assume":
        return proj.node(obj.assume(dict(D)), tok), None
    if op == "reduce":
        return proj.node(obj.reduce(), tok), None
    if op == "negate":
        return proj.node(obj.negate(), tok), None
    if op == "errors":
        return sorted(str(getattr(x, "value", x)) for x in obj.errors()), None
    if op == "to_json":
        return proj.jdoc(json.loads(json.dumps(obj.to_json())), tok), None
    if op == "to_b64":
        return _hashlib.sha256(obj.to_b64().encode()).hexdigest()[:24], None
    if op == "reload_b64":
        new = pg.from_b64(obj.to_b64())                       # the caller goes on with the unpacked object
        return proj.node(new, tok), new
    if op == "to_poly":
        r = []
        for active in (True, False):
            rows, cols = proj.polyhedron(obj.to_ge_polyhedron(active=active), tok)
            r.append({"rows": rows, "cols": cols})
        return r, None
    if op == "flatten":
        return [[tok(x.id), proj.bounds(x.bounds)] for x in obj.flatten()], None
    if op == "flags":
        out = []
        for x in obj.flatten():
            if proj.is_var(x): continue
            eb = x.equation_bounds
            out.append([tok(x.id), bool(x.is_tautology), bool(x.is_contradiction), [proj.I(eb[0]), proj.I(eb[1])]])
        return out, None
    if op == "cfg_poly":
        return proj.cfgpoly(obj.ge_polyhedron, tok), None
    if op == "default_prios":
        return sorted([tok(k), proj.I(v)] for k, v in obj.default_prios.items()), None
    if op == "leafs":
        return [[tok(v.id), proj.bounds(v.bounds)] for v in obj.leafs()], None
    if op == "select":
        lv = [v.id for v in proj.leaves(obj)]
        prios = [{}, {lv[0]: 1}] if lv else [{}]
        out = []
        ncols = len(proj.leaves(obj)) + len(_compounds(obj))
        for only in (False, True):
            s = solvers.Capture("exact" if ncols <= 13 else "capture")       # brute force only while the box is small
            res = list(obj.select(*prios, solver=s, only_leafs=only))
            out.append([sorted([tok(k), proj.I(v)] for k, v in (r if isinstance(r, dict) else r[0]).items()) for r in res])
        return out, None
    if op == "select_raise":
        # a request that fails because of ITS solver: the configurator answers the next request like a fresh one
        def boom(*a, **k): raise RuntimeError("solver failed")
        try:
            list(obj.select({}, solver=boom))
            return {"exc": ""}, None
        except Exception as ex:
            return {"exc": type(ex).__name__}, None
    if op == "solve":
        lv = [v.id for v in proj.leaves(obj)]
        objs = [{}, {lv[0]: 1, lv[-1]: -1}] if lv else [{}]
        s = solvers.Capture("capture")
        res = list(obj.solve(objs, solver=s))
        return [sorted([tok(k), proj.I(v)] for k, v in (r[0] if isinstance(r, tuple) else r).items()) for r in res], None
    if op == "builtin":
        # the library's own solver (the default of solve() and select()): its answer is not judged, only that the call leaves
        # nothing behind and answers like on a fresh object
        res = list(obj.select({})) if type(obj).__name__ == "StingyConfigurator" else list(obj.solve([{}]))
        return [sorted([tok(k), proj.I(v)] for k, v in (r[0] if isinstance(r, tuple) else r).items()) for r in res], None
    if op == "add_q":
        # add() made for its result only: the caller goes on with the configurator it had
        r_, _n = _abs_call(obj, "add", d, rule, tok, case)
        return r_, None
    if op == "add":
        rule_obj = B.build(rule)
        try:
            new = obj.add(rule_obj)
        except Exception as ex:
            return {"refused": True, "exc": type(ex).__name__}, None
        return {"refused": False, "node": proj.node(new, tok), "dp": sorted([tok(k), proj.I(v)] for k, v in new.default_prios.items()),
                "poly": proj.cfgpoly(new.ge_polyhedron, tok), "sel": _abs_call(new, "select", None, None, tok, case)[0]}, new
    raise ValueError("unknown op " + op)

def _add_rule(r, rule, keep_id):
    r2 = dict(r); r2["a"] = list(r["a"]) + [rule]; r2["id"] = keep_id
    return r2

def drv_reference(case):
    """the reference of a history: every call is made on a FRESHLY BUILT identical object (built from the recipe the handle
    is bound to at that point), in a pristine process forked before any library call was made"""
    import puan.modules.configurator as cc
    tok = proj.Tok()
    rcp = dict(case["handles"])
    out = []
    for c in case["calls"]:
        h, op = c["h"], c["op"]
        obj = B.build(rcp[h])
        if op in ("add", "add_q"):
            # direct construction with the old rules followed by the new one, under the configurator's id
            rule_obj = B.build(c["rule"])
            if rule_obj.id in [p.id for p in obj.propositions]:
                res = {"refused": True, "exc": "Exception"}
            else:
                new = cc.StingyConfigurator(*(list(obj.propositions) + [rule_obj]), id=obj.id)
                res = {"refused": False, "node": proj.node(new, tok), "dp": sorted([tok(k), proj.I(v)] for k, v in new.default_prios.items()),
                       "poly": proj.cfgpoly(new.ge_polyhedron, tok), "sel": _abs_call(new, "select", None, None, tok, case)[0]}
                if op == "add": rcp[h] = _add_rule(rcp[h], c["rule"], obj.id)
        else:
            try:
                res, _ = _abs_call(obj, op, c.get("d"), c.get("rule"), tok, case)
            except (KeyboardInterrupt, SystemExit):
                raise
            except BaseException as ex:       # a call the library refuses on a fresh object too (recorded as its result)
                res = {"raised": type(ex).__name__}
        out.append(res)
    return [{"op": "ref", "res": out}]

def drv_shared_build(case):
    """two models built from the SAME Python objects for their equal sub-recipes: building (and querying) the second one must leave
    the first one as it was, and each must answer like a model built alone from its own fresh objects"""
    import puan.modules.configurator as cc
    tok = proj.Tok()
    def state(o):
        st = {"node": proj.node(o, tok)}
        for op in (["cfg_poly", "default_prios", "select"] if isinstance(o, cc.StingyConfigurator) else ["to_poly", "flags"]):
            try:
                st[op] = _abs_call(o, op, None, None, tok, case)[0]
            except (KeyboardInterrupt, SystemExit):
                raise
            except BaseException as ex:
                st[op] = {"raised": type(ex).__name__}
        return st
    r1, r2 = case["first"], case["second"]
    f1, f2 = state(B.build(r1)), state(B.build(r2))
    memo = {}
    o1 = B.build(r1, memo=memo)
    before = state(o1)
    o2 = B.build(r2, memo=memo)
    after_build = proj.node(o1, tok)
    s2 = state(o2)
    after = state(o1)
    return [{"op": "shared_build", "first_before": before, "first_after_build": after_build, "first_after": after, "first_fresh": f1,
             "second": s2, "second_fresh": f2}]

def drv_determinism(case):
    """run in a pristine process: the same constructor calls before and after other, unrelated use of the library (loading
    configurators from JSON, packing, rule dictionaries, queries) give the same objects -- no module or class level state leaks"""
    import puan, puan.logic.plog as pg, puan.modules.configurator as cc
    from . import solvers
    def battery():
        tok = proj.Tok()
        out = []
        for r in case["probes"]:
            doc = B.to_json_recipe(r)
            for ctor in (pg.from_json, lambda d: B.build(r)):
                try:
                    o = ctor(doc)
                    q = {"node": proj.node(o, tok), "errors": sorted(str(getattr(x, "value", x)) for x in o.errors())}
                    try:
                        rows, cols = proj.polyhedron(o.to_ge_polyhedron(active=True), tok); q["poly"] = {"rows": rows, "cols": cols}
                    except BaseException as ex:
                        q["poly"] = {"raised": type(ex).__name__}
                    q["neg"] = proj.node(o.negate(), tok)
                    q["json"] = proj.jdoc(json.loads(json.dumps(o.to_json())), tok)
                except (KeyboardInterrupt, SystemExit):
                    raise
                except BaseException as ex:
                    q = {"raised": type(ex).__name__}
                out.append(q)
        return out
    first = battery() if not case.get("noise_first") else None
    for r in case["noise"]:
        try:
            doc = B.to_json_recipe(r)
            o = cc.StingyConfigurator.from_json(doc) if r["c"] == "Cfg" else pg.from_json(doc)
            o2 = B.build(r)
            o.to_json(); pg.from_b64(o.to_b64()); o.errors(); o.negate(); o.reduce(); o.flatten()
            if r["c"] == "Cfg":
                o.ge_polyhedron; o.default_prios; o.leafs()
                list(o.select({}, solver=solvers.Capture("capture")))
                list(o2.select({}, solver=solvers.Capture("capture"), only_leafs=True))
            else:
                o.to_ge_polyhedron(active=True); o.evaluate({}); o.evaluate_propositions({})
                d = B.to_cicje(r)
                if d is not None: pg.Imply.from_cicJE(d)
        except (KeyboardInterrupt, SystemExit):
            raise
        except BaseException:
            pass
    later = battery()
    if first is None:
        return [{"op": "det_part", "later": later}]          # compared (in the parent) with the same probes in a process that did nothing else
    return [{"op": "determinism", "first": first, "later": later}]

def drv_derive_poke(case):
    """a model and what assume() / negate() / reduce() returned for it are two objects: calls on the one (here: calls that trigger the
    known overwrite D2 on the CALLED object) must leave the other as it was"""
    puan, pg = _mods()
    tok = proj.Tok()
    out = []
    lv = None
    def derive(m, kind):
        if kind == "negate": return m.negate()
        if kind == "reduce": return m.reduce()
        l0 = proj.leaves(m)
        d = {l0[0].id: proj.I(l0[0].bounds.upper)} if l0 else {}
        if kind == "assume2" and len(l0) > 1: d[l0[-1].id] = proj.I(l0[-1].bounds.lower)
        return m.assume(d)
    def poke(x):
        for c in _compounds(x)[:4]:
            for v in (0, 1):
                for call in (lambda: x.evaluate({c.id: v}), lambda: x.evaluate_propositions({c.id: v}), lambda: x.assume({c.id: v})):
                    try: call()
                    except (KeyboardInterrupt, SystemExit): raise
                    except BaseException: pass
    for kind in ("assume", "assume2", "negate", "reduce"):
        m = _mk(case)
        if not _valid(m): return []
        try:
            res = derive(m, kind)
        except Exception:
            continue
        if proj.is_var(res): continue
        sb = proj.node(m, tok)
        poke(res)
        sa = proj.node(m, tok)
        m2 = _mk(case)
        res2 = derive(m2, kind)
        rb = proj.node(res2, tok)
        poke(m2)
        ra = proj.node(res2, tok)
        out.append({"op": "derive_poke", "kind": kind, "source_before": sb, "source_after": sa, "result_before": rb, "result_after": ra})
    return out

def core_sha(obj):
    return _hashlib.sha256(json.dumps(obj, sort_keys=True, default=str).encode()).hexdigest()[:20]

def drv_history(case):
    """executes a call history on live objects held in one store (long-lived worker process: earlier histories have
    run in the same process), records the projected state of EVERY live object before and after every call"""
    import puan
    tok = proj.Tok()
    store = {h: B.build(r) for h, r in case["handles"].items()}
    if len(json.dumps(case["calls"])) % 4 == 0:
        for h_, o_ in store.items(): _provoke(o_, len(h_))        # rejected calls (ValueError) before the history: they leave nothing behind
    steps = []
    ghosts = 0
    initial = {h: proj.node(v, tok) for h, v in store.items()}
    for k, c in enumerate(case["calls"]):
        h, op = c["h"], c["op"]
        obj = store[h]
        before = [[k, proj.node(v, tok)] for k, v in store.items()]
        del puan._verif.events[:]
        try:
            res, new = _abs_call(obj, op, c.get("d"), c.get("rule"), tok, case)
        except (KeyboardInterrupt, SystemExit):
            raise
        except BaseException as ex:       # recorded as the call's result (a call on an object a known deviation has changed may fail)
            res, new = {"raised": type(ex).__name__}, None
        # the same call on a freshly built object that has the handle's CURRENT projected definition (only needed, and only
        # compared, when the handle's state differs from what its recipe denotes, i.e. after a known deviation)
        step_state = None
        bnode = dict(before)[h]
        if op in STATE_OPS and bnode != initial.get(h):
            try:
                rebuilt = B.from_node(bnode, tok)
                step_state = _abs_call(rebuilt, op, c.get("d"), None, tok, case)[0]
            except (KeyboardInterrupt, SystemExit):
                raise
            except BaseException as ex:
                step_state = {"raised": type(ex).__name__}
        hooks = [{"id": tok(f["id"]), "new": [proj.I(f["new"][0]), proj.I(f["new"][1])]} for kind, f in puan._verif.events if kind == "assume_overwrite"]
        del puan._verif.events[:]
        step = {"h": h, "op": op, "dict": [[tok(k), [int(v[0]), int(v[1])]] for k, v in (c.get("d") or {}).items()],
                "before": before, "res": res, "res_fresh": case["refs"][k], "hooks": hooks,
                "has_state": step_state is not None, "res_state": step_state if step_state is not None else 0,
                "res_is_node": op in ("assume", "reduce", "negate", "reload_b64") and isinstance(res, dict) and "k" in res
                               and isinstance(step_state, dict) and "k" in step_state}
        step["raised"] = isinstance(res, dict) and "raised" in res
        if op in ("add", "add_q"):
            step["refused"] = False
            rule_obj_id = B.build(c["rule"]).id
            step["rule_id"] = tok(rule_obj_id)
            step["refused"] = bool(res.get("refused")) if not step["raised"] else False
            step["old_after"] = proj.node(obj, tok)
            if new is not None:
                ghosts += 1
                store["%s_old%d" % (h, ghosts)] = obj       # the old configurator stays alive and observed
                store[h] = new
                initial[h] = proj.node(new, tok)
        elif new is not None:
            store[h] = new                                  # reload: the handle now denotes the unpacked object
        step["after"] = [[k, proj.node(v, tok)] for k, v in store.items() if k in dict(before)]
        steps.append(step)
    return [{"op": "history", "steps": steps, "handles": sorted(case["handles"])}]

# ============================================================================= behaviour beyond the listed properties (PuanExtra)
def drv_x_model(case):
    """short forms, id listings and the reduced polyhedron of one model"""
    puan, pg = _mods()
    m = _mk(case)
    if proj.is_var(m) or m.errors() != []: return []
    tok = proj.Tok()
    out = []
    for x in m.flatten()[:6]:
        sh = x.to_short()
        short = [tok(sh[0]), proj.I(sh[1]), [tok(i) for i in sh[2]], proj.I(sh[3]), [proj.I(sh[4][0]), proj.I(sh[4][1])]]
        back = pg.AtLeast.from_short(sh)
        e = {"op": "x_short", "model": proj.node(x, tok), "short": short, "back": proj.node(back, tok),
             "variables": [tok(i) for i in (x.variables if not proj.is_var(x) else [x.id])]}
        if proj.is_var(x):
            e["atomic"] = []; e["compound"] = []
        else:
            e["atomic"] = [tok(p.id) for p in x.atomic_propositions]; e["compound"] = [tok(p.id) for p in x.compound_propositions]
        out.append(e)
    if len(m.flatten()) <= 12 and not any(" " in str(x.id) or "\n" in str(x.id) for x in m.flatten()):
        import ast
        raw = m.to_text().split("\n")
        lines = []
        for ln in raw:
            sh = ast.literal_eval(ln)
            lines.append([tok(sh[0]), proj.I(sh[1]), [tok(i) for i in sh[2]], proj.I(sh[3]), [proj.I(sh[4][0]), proj.I(sh[4][1])]])
        out.append({"op": "x_to_text", "model": proj.node(m, tok), "lines": lines, "raw": [list(ln.encode("utf-8")) for ln in raw]})
    lv = proj.leaves(m)
    box = _box(lv)
    if box is not None and len(box) <= 128 and len(m.flatten()) <= 12:
        try:
            P = m.to_ge_polyhedron(active=True, reduced=True)
            rows, cols = proj.polyhedron(P, tok)
            out.append({"op": "x_reduced_poly", "model": proj.node(m, tok), "rows": rows, "cols": cols})
        except BaseException as ex:
            out.append({"op": "x_reduced_poly", "model": proj.node(m, tok), "rows": [], "cols": [{"id": "raised_" + type(ex).__name__, "lo": 0, "hi": 0}]})
    return out

def drv_x_poly(case):
    import numpy
    tok = proj.Tok()
    P = _poly(case)
    base = _pp(P, tok)
    out = []
    from fractions import Fraction
    import puan.ndarray as pnd
    nc = len(base["cols"])
    if base["rows"]:
        st = [Fraction(float(v)).limit_denominator(10 ** 6) for v in numpy.asarray(P.row_stretch()).tolist()]
        out.append({"op": "x_row_stretch", "rows": base["rows"], "cols": base["cols"], "stretch": [[f.numerator, f.denominator] for f in st]})
    if "mask" in case and base["rows"] and nc:
        mask = case["mask"][:nc] + [0] * (nc - len(case["mask"]))
        P2 = _poly(case)                  # observation O11: neglect_columns zeroes the neglected columns of its receiver as well
        R = P2.neglect_columns(numpy.array(mask))
        res = [{"b": proj.I(r[0]), "a": [proj.I(v) for v in r[1:]]} for r in numpy.asarray(R).tolist()]
        size = 1
        for c in base["cols"]: size *= c["hi"] - c["lo"] + 1
        if size <= 3000:
            out.append({"op": "x_neglect", "rows": base["rows"], "cols": base["cols"], "mask": mask, "res": res, "recv_after": _pp(P2, tok)["rows"]})
        pats = [p[:nc] for p in case["patterns"]]
        if pats and len(pats[0]):
            ng = pnd.ge_polyhedron(numpy.asarray(P)).neglectable_columns(numpy.array(pats, dtype=numpy.int64))
            out.append({"op": "x_neglectable", "rows": base["rows"], "cols": base["cols"], "patterns": pats, "res": [proj.I(v) for v in numpy.asarray(ng).tolist()]})
    for i in range(len(base["rows"])):
        n = 1
        for j, c in enumerate(base["cols"]):
            if base["rows"][i]["a"][j] != 0: n *= c["hi"] - c["lo"] + 1
        if n > 2000 or all(a == 0 for a in base["rows"][i]["a"]): continue
        if len({c["hi"] - c["lo"] for c in base["cols"]}) > 1:
            continue       # observation O9: row_distribution raises ValueError (ragged array) when the columns' ranges differ in width
        d = P.row_distribution(i)
        out.append({"op": "x_row_dist", "rows": base["rows"], "cols": base["cols"], "row": i + 1,
                    "dist": [[proj.I(a), proj.I(b)] for a, b in numpy.asarray(d).tolist()], "stretch_int": proj.I(P.row_stretch_int(i))})
    return out

def drv_x_arrays(case):
    import numpy, puan.ndarray as pnd
    out = []
    x = case["x"]
    if case["kind"] == "vec":
        delta = case["delta"]
        a = pnd.integer_ndarray(numpy.array(x, dtype=numpy.int64))
        dl = numpy.array(delta, dtype=numpy.int64) if len(set(delta)) > 1 else int(delta[0])
        out.append({"op": "x_neighbours", "x": x, "delta": delta,
                    "add": _nest(numpy.asarray(a.get_neighbourhood(method="addition", delta=dl)).tolist()),
                    "sub": _nest(numpy.asarray(a.get_neighbourhood(method="subtraction", delta=dl)).tolist()),
                    "all": _nest(numpy.asarray(a.get_neighbourhood(method="all", delta=dl)).tolist())})
        xb = [1 if v > 0 else 0 for v in x]
        b = pnd.boolean_ndarray(numpy.array(xb, dtype=numpy.int64))
        f = lambda r: _nest((numpy.asarray(r) * 1).tolist())
        out.append({"op": "x_bool_neighbours", "x": xb, "on_off": f(b.get_neighbourhood("on_off")), "on": f(b.get_neighbourhood("on")),
                    "off": f(b.get_neighbourhood("off"))})
    else:
        a = pnd.integer_ndarray(numpy.array(x, dtype=numpy.int64))
        g = lambda r: _nest(numpy.asarray(r).astype(numpy.int64).tolist())
        ev = {"op": "x_reduce2d", "x": x, "first0": g(a.reduce2d("first", 0)), "first1": g(a.reduce2d("first", 1)),
              "last0": g(a.reduce2d("last", 0)), "last1": g(a.reduce2d("last", 1)), "ranking": g(a.ranking())}
        ev["x_after"] = g(a)                                  # the helpers hand out new arrays, the caller's array stays
        a1 = pnd.integer_ndarray(numpy.array(x[0], dtype=numpy.int64))
        ev["rank1"] = g(a1.ranking()); ev["x1_after"] = g(a1)
        out.append(ev)
    return out

def drv_x_misc(case):
    import puan, puan.misc, puan.logic.plog as pg
    tok = proj.Tok()
    out = []
    d = dict(case["d"]); keys = list(case["keys"])
    try:
        r = ["value", puan.misc.or_get(dict(d), keys, case["default"])]
    except KeyError:
        r = ["raised", 0]
    try:
        rep = puan.misc.or_replace(dict(d), keys, case["value"]); rr = False
    except KeyError:
        rep, rr = {}, True
    out.append({"op": "x_or_get", "d": [[tok(k), v] for k, v in d.items()], "keys": [tok(k) for k in keys], "has_default": case["default"] is not None,
                "default": case["default"] if case["default"] is not None else 0, "res": r, "value": case["value"],
                "replaced": [[tok(k), v] for k, v in rep.items()], "replaced_raised": rr})
    lo, hi = case["lo"], case["hi"]
    def raised(f):
        try: f(); return False
        except ValueError: return True
    out.append({"op": "x_ctor", "lo": lo, "hi": hi, "bounds_raised": raised(lambda: puan.Bounds(lo, hi)),
                "bool_raised": raised(lambda: puan.variable("v", (lo, hi), dtype="bool")) if lo <= hi else not (lo == 0 and hi == 1),
                "compound_raised": raised(lambda: pg.All("a", variable=puan.variable("A", (lo, hi)))) if lo <= hi else True})
    ids = list(case["ids"])
    vs = puan.variable.from_strings(*ids)
    srt = sorted(ids)
    out.append({"op": "x_sorted", "inp": [tok(i) for i in ids], "out": [tok(v.id) for v in vs], "pos": [srt.index(v.id) for v in vs]})
    mixed = [i if k % 2 else puan.variable(i, (1, 2)) for k, i in enumerate(ids)]
    vm = puan.variable.from_mixed(*mixed)
    out.append({"op": "x_sorted", "inp": [tok(i) for i in ids], "out": [tok(v.id) for v in vm], "pos": [srt.index(v.id) for v in vm]})
    return out
