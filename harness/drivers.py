"""P2 drivers: each takes a JSON-able case, builds FRESH objects with the real library from /repo,
calls the public API and returns the recorded events (dicts in the trace vocabulary).
No semantics is decided here: the events are validated by TLC against PuanTrace.tla."""
import itertools, json, random
from . import proj, build as B

MAX_POINTS = 1024

def _mods():
    import puan, puan.logic.plog as pg
    return puan, pg

def _box(lv):
    """all total in-bounds assignments of the leaf variables (list of dicts id->int)"""
    ranges = [range(proj.I(v.bounds.lower), proj.I(v.bounds.upper) + 1) for v in lv]
    n = 1
    for r in ranges: n *= len(r)
    if n > MAX_POINTS:
        return None
    return [dict(zip([v.id for v in lv], vals)) for vals in itertools.product(*ranges)]

def _form(val, k, puan):
    """the three accepted value forms, rotated"""
    k = k % 3
    if k == 0: return int(val)
    if k == 1: return (int(val), int(val))
    return puan.Bounds(int(val), int(val))

def _valid(m):
    return (not proj.is_var(m)) and m.errors() == []

def _mk(case):
    return B.build(case["recipe"], leaf_str=case.get("leaf_str", False), via=case.get("via", "ctor"))

def _compounds(m):
    out, seen = [], set()
    for x in m.flatten():
        if not proj.is_var(x) and x.id not in seen:
            seen.add(x.id); out.append(x)
    return out

# ----------------------------------------------------------------------------- C03
def drv_evaluate(case):
    puan, pg = _mods()
    m = _mk(case)
    if not _valid(m): return []
    tok = proj.Tok()
    lv = proj.leaves(m)
    box = _box(lv)
    if box is None: return []
    rng = random.Random(case.get("seed", 0))
    pm = proj.node(m, tok)
    comps = [c.id for c in _compounds(m)]
    points = []
    shared = {}                                 # ONE dictionary object, updated in place between calls on the same model
    def point(asg, over, k):
        mm = _mk(case) if over else m          # evaluate() with a compound id leaks (known finding D2): fresh object
        interp = {i: _form(v, k + j, puan) for j, (i, v) in enumerate(asg.items())}
        interp.update({i: _form(v, k + 1, puan) for i, v in over.items()})
        if over:
            arg1, arg2 = dict(interp), dict(interp)
        else:
            shared.clear(); shared.update(interp)
            arg1 = arg2 = shared
        res = mm.evaluate_propositions(arg1)
        mm2 = _mk(case) if over else m
        top = mm2.evaluate(arg2)
        points.append({"interp": proj.pairs_iv(interp, tok), "res_all": proj.pairs_iv(res, tok),
                       "res_top": proj.bounds(top)})
    for k, asg in enumerate(box):
        point(asg, {}, k)
    # overrides of sub-proposition ids (and of the top id) with constants
    overs = [{c: v} for c in comps for v in (0, 1)]
    overs += [{c1: v1, c2: v2} for c1, c2 in itertools.combinations(comps, 2) for v1 in (0, 1) for v2 in (0, 1)]
    rng.shuffle(overs)
    for k, over in enumerate(overs[: case.get("n_over", 6)]):
        for asg in (box if len(box) <= 8 else rng.sample(box, 4)):
            point(asg, over, k)
    return [{"op": "evaluate", "model": pm, "points": points}]

def _evals(m, box, tok, puan, k0=0):
    """library evaluate_propositions on every total assignment of the box"""
    pts = []
    for k, asg in enumerate(box):
        interp = {i: _form(v, k + k0 + j, puan) for j, (i, v) in enumerate(asg.items())}
        res = m.evaluate_propositions(interp)
        pts.append({"asg": proj.pairs_int(asg, tok), "ev": proj.pairs_iv(res, tok)})
    return pts

# ----------------------------------------------------------------------------- C01 / C02
def drv_to_poly(case):
    puan, pg = _mods()
    m = _mk(case)
    if not _valid(m): return []
    tok = proj.Tok()
    box = _box(proj.leaves(m))
    if box is None: return []
    pm = proj.node(m, tok)
    pts = _evals(m, box, tok, puan)
    out = []
    for active in (True, False):
        p = m.to_ge_polyhedron(active=active)
        rows, cols = proj.polyhedron(p, tok)
        out.append({"op": "to_poly", "model": pm, "active": active, "rows": rows, "cols": cols, "points": pts,
                    "after": proj.node(m, tok)})
    return out

def drv_to_poly2(case):
    puan, pg = _mods()
    m = _mk(case)
    if not _valid(m): return []
    tok = proj.Tok()
    box = _box(proj.leaves(m))
    if box is None: return []
    pm = proj.node(m, tok)
    pts = []
    for k, asg in enumerate(box):
        pts.append({"asg": proj.pairs_int(asg, tok), "ev": [[pm["id"], proj.bounds(m.evaluate({i: _form(v, k, puan) for i, v in asg.items()}))]]})
    p = m.to_ge_polyhedron(active=True)
    rows, cols = proj.polyhedron(p, tok)
    naux = len(cols) - len(box[0]) if box else 0
    full = len(box) * (2 ** max(naux, 0)) <= case.get("max_full", 1 << 14)
    return [{"op": "to_poly2", "model": pm, "rows": rows, "cols": cols, "points": pts, "full": full,
             "recipe": B.recipe_tokens(case["recipe"], tok)}]

# ----------------------------------------------------------------------------- C05
def drv_negate(case):
    puan, pg = _mods()
    m = _mk(case)
    if not _valid(m): return []
    tok = proj.Tok()
    box = _box(proj.leaves(m))
    if box is None: return []
    pm = proj.node(m, tok)
    out = []
    for via in ("negate", "Not"):
        g = m.negate() if via == "negate" else pg.Not(m)
        pts = []
        for k, asg in enumerate(box):
            I1 = {i: _form(v, k, puan) for i, v in asg.items()}
            pts.append({"asg": proj.pairs_int(asg, tok), "ev_orig": proj.bounds(m.evaluate(dict(I1))),
                        "ev_neg": proj.bounds(g.evaluate(dict(I1)))})
        out.append({"op": "negate", "via": via, "model": pm, "neg": proj.node(g, tok), "points": pts,
                    "neg_errors": [str(getattr(x, "value", x)) for x in g.errors()], "after": proj.node(m, tok)})
    return out

# ----------------------------------------------------------------------------- C06
def _subranges(v):
    lo, hi = proj.I(v.bounds.lower), proj.I(v.bounds.upper)
    opts = [None, lo, hi, (lo, hi)]
    if hi - lo >= 2: opts += [(lo + 1, hi), (lo, hi - 1), lo + 1]
    return opts

def drv_partial(case):
    puan, pg = _mods()
    m = _mk(case)
    if not _valid(m): return []
    tok = proj.Tok()
    lv = proj.leaves(m)
    if _box(lv) is None: return []
    pm = proj.node(m, tok)
    rng = random.Random(case.get("seed", 0))
    combos = list(itertools.product(*[_subranges(v) for v in lv]))
    if len(combos) > case.get("max_interps", 40):
        combos = rng.sample(combos, case.get("max_interps", 40))
    points = []
    for k, combo in enumerate(combos):
        interp = {}
        for j, (v, o) in enumerate(zip(lv, combo)):
            if o is None: continue
            if isinstance(o, tuple):
                interp[v.id] = o if (k + j) % 2 else puan.Bounds(*o)
            else:
                interp[v.id] = _form(o, k + j, puan)
        res = m.evaluate_propositions(dict(interp))
        top = m.evaluate(dict(interp))
        points.append({"interp": proj.pairs_iv(interp, tok), "res_all": proj.pairs_iv(res, tok), "res_top": proj.bounds(top)})
    out = [{"op": "partial", "model": pm, "points": points, "after": proj.node(m, tok)}]
    for c in _compounds(m):
        n = 1
        for k in c.propositions: n *= proj.I(k.bounds.upper) - proj.I(k.bounds.lower) + 1
        if n > 4096: continue
        eb = c.equation_bounds
        out.append({"op": "flags", "node": proj.node(c, tok), "taut": bool(c.is_tautology), "contra": bool(c.is_contradiction),
                    "eqb": [proj.I(eb[0]), proj.I(eb[1])]})
    return out

# ----------------------------------------------------------------------------- C07 / C08
def _dict_options(m, rng, max_ids, n_dicts, compound_opts=((0, 0), (1, 1), (0, 1))):
    """assumption dictionaries over <= max_ids ids (leaves: constants and sub-ranges, compounds: 0, 1, (0,1))"""
    lv = proj.leaves(m)
    ids = [(v.id, [o for o in _subranges(v) if o is not None]) for v in lv]
    ids += [(c.id, [o if o[0] != o[1] else o[0] for o in compound_opts]) for c in _compounds(m)]
    dicts = [{}]
    for k in range(1, max_ids + 1):
        for sel in itertools.combinations(ids, k):
            for vals in itertools.product(*[s[1] for s in sel]):
                dicts.append({s[0]: v for s, v in zip(sel, vals)})
    if len(dicts) > n_dicts:
        dicts = [dicts[0]] + rng.sample(dicts[1:], n_dicts - 1)
    return dicts

def _as_form(o, k, puan):
    if isinstance(o, tuple):
        return o if k % 2 else puan.Bounds(*o)
    return _form(o, k, puan)

def drv_assume(case):
    puan, pg = _mods()
    m0 = _mk(case)
    if not _valid(m0): return []
    lv = proj.leaves(m0)
    box = _box(lv)
    if box is None: return []
    rng = random.Random(case.get("seed", 0))
    out = []
    for k, D in enumerate(_dict_options(m0, rng, case.get("max_ids", 2), case.get("n_dicts", 12))):
        tok = proj.Tok()
        m = _mk(case)                       # assume() on an object whose own id is named leaks (D2): fresh object per call
        pm = proj.node(m, tok)
        Df = {i: _as_form(o, k + j, puan) for j, (i, o) in enumerate(D.items())}
        r = m.assume(dict(Df))
        rest_ids = [v.id for v in lv if v.id not in D]
        seen, pts = set(), []
        for asg in box:
            rest = {i: asg[i] for i in rest_ids}
            key = tuple(rest.items())
            if key in seen: continue
            seen.add(key)
            I1 = {i: _form(v, k, puan) for i, v in rest.items()}
            ev_a = r.evaluate(dict(I1))
            union = dict(Df); union.update(I1)
            ev_u = _mk(case).evaluate(union)
            pts.append({"rest": proj.pairs_iv(I1, tok), "ev_assumed": proj.bounds(ev_a), "ev_union": proj.bounds(ev_u)})
        out.append({"op": "assume", "model": pm, "dict": proj.pairs_iv(Df, tok), "res": proj.node(r, tok), "points": pts})
    return out

def drv_reduce(case):
    puan, pg = _mods()
    m0 = _mk(case)
    if not _valid(m0): return []
    lv = proj.leaves(m0)
    box = _box(lv)
    if box is None: return []
    rng = random.Random(case.get("seed", 0))
    out = []
    for k, D in enumerate(_dict_options(m0, rng, case.get("max_ids", 2), case.get("n_dicts", 12), compound_opts=((0, 0), (1, 1)))):
        tok = proj.Tok()
        Df = {i: _as_form(o, k + j, puan) for j, (i, o) in enumerate(D.items())}
        m = _mk(case).assume(dict(Df)) if D else _mk(case)
        if proj.is_var(m):
            continue                           # the whole model became a constant variable: reduce() is the identity
        pm = proj.node(m, tok)
        r = m.reduce()
        free = [v for v in proj.leaves(m) if proj.I(v.bounds.lower) != proj.I(v.bounds.upper)]
        fb = _box(free)
        pts = []
        for j, asg in enumerate(fb):
            I1 = {i: _form(v, k + j, puan) for i, v in asg.items()}
            pts.append({"rest": proj.pairs_iv(I1, tok), "ev_model": proj.bounds(m.evaluate(dict(I1))),
                        "ev_red": proj.bounds(r.evaluate(dict(I1)))})
        out.append({"op": "reduce", "model": pm, "res": proj.node(r, tok), "points": pts, "after": proj.node(m, tok)})
    return out

# ----------------------------------------------------------------------------- C10
def drv_errors(case):
    puan, pg = _mods()
    m = _mk(case)
    if proj.is_var(m): return []
    tok = proj.Tok()
    errs = m.errors()
    return [{"op": "errors", "model": proj.node(m, tok), "errs": sorted({str(getattr(x, "value", x)) for x in errs}),
             "after": proj.node(m, tok)}]

# ----------------------------------------------------------------------------- C04
def drv_build(case):
    puan, pg = _mods()
    r = case["recipe"]
    out = []
    lv = B.recipe_leaves(r)
    ids = sorted(lv)
    for via in case.get("vias", ["ctor"]):
        c2 = dict(case); c2["via"] = via
        if via == "cicJE":
            d = B.to_cicje(r)
            if d is None: continue
            m = pg.Imply.from_cicJE(d)
        else:
            m = _mk(c2)
        if proj.is_var(m) or m.errors() != []:
            continue
        tok = proj.Tok()
        table = []
        for k, vals in enumerate(itertools.product((0, 1), repeat=len(ids))):
            asg = dict(zip(ids, vals))
            table.append({"asg": proj.pairs_int(asg, tok), "ev": proj.bounds(m.evaluate({i: _form(v, k, puan) for i, v in asg.items()}))})
        out.append({"op": "build", "via": via, "recipe": B.recipe_tokens(r, tok), "model": proj.node(m, tok), "table": table})
    return out

# ----------------------------------------------------------------------------- C16 / C17
def _cc_class_map():
    import puan, puan.logic.plog as pg, puan.modules.configurator as cc
    return [puan.variable, pg.AtLeast, pg.AtMost, pg.All, cc.Any, cc.Xor, pg.Not, pg.XNor, pg.Imply]

def _has_cc(r):
    return r["c"] in ("ccAny", "ccXor") or (r["c"] != "leaf" and any(_has_cc(x) for x in r["a"]))

def _from_json(j, case):
    import puan.logic.plog as pg, puan.modules.configurator as cc
    if case["recipe"]["c"] == "Cfg":
        return cc.StingyConfigurator.from_json(j)
    if _has_cc(case["recipe"]):
        return pg.from_json(j, class_map=_cc_class_map())
    return pg.from_json(j)

def _cfg_part(m, tok, cap=1 << 12):
    """what C16/C17/C18 compare for configurators: default priorities and the configured polyhedron"""
    dp = m.default_prios
    P = m.ge_polyhedron
    pp = proj.cfgpoly(P, tok)
    n = 1
    for c in pp["cols"]: n *= c["hi"] - c["lo"] + 1
    return {"dp": [[tok(k), proj.I(v)] for k, v in dp.items()], "poly": pp, "enum": n <= cap}

def drv_json(case):
    puan, pg = _mods()
    m = _mk(case)
    if not _valid(m): return []
    tok = proj.Tok()
    box = _box(proj.leaves(m))
    if box is None: return []
    pm = proj.node(m, tok)
    j = json.loads(json.dumps(m.to_json()))
    back = _from_json(j, case)
    pts = []
    for k, asg in enumerate(box):
        I1 = {i: _form(v, k, puan) for i, v in asg.items()}
        pts.append({"asg": proj.pairs_int(asg, tok), "ev_orig": proj.bounds(m.evaluate(dict(I1))),
                    "ev_back": proj.bounds(back.evaluate(dict(I1)))})
    e = {"op": "json", "model": pm, "back": proj.node(back, tok), "jdoc": proj.jdoc(j, tok), "points": pts,
         "is_cfg": case["recipe"]["c"] == "Cfg", "after": proj.node(m, tok), "recipe": B.recipe_tokens(case["recipe"], tok)}
    if e["is_cfg"]:
        e["cfg_orig"] = _cfg_part(m, tok)
        e["cfg_back"] = _cfg_part(back, tok)
    return [e]

def _shorts(m, tok):
    out = []
    for x in m.flatten():
        s = x.to_short()
        out.append([tok(s[0]), proj.I(s[1]), [tok(i) for i in s[2]], proj.I(s[3]), [proj.I(s[4][0]), proj.I(s[4][1])]])
    return out

def _battery(m, box, tok, puan, is_cfg):
    """fixed query battery: evaluations on the box, validation, JSON form, polyhedron, configurator queries"""
    q = {"evals": [proj.bounds(m.evaluate({i: _form(v, k, puan) for i, v in asg.items()})) for k, asg in enumerate(box)],
         "errors": sorted(str(getattr(x, "value", x)) for x in m.errors()),
         "jdoc": proj.jdoc(json.loads(json.dumps(m.to_json())), tok)}
    rows, cols = proj.polyhedron(m.to_ge_polyhedron(active=True), tok)
    q["poly"] = {"rows": rows, "cols": cols}
    if is_cfg:
        from . import solvers
        q["cfg"] = _cfg_part(m, tok)
        prios = [{}, {cols[-1]["id"]: 1} if cols else {}]
        sel = []
        for mode in ("capture", "exact"):
            if mode == "exact" and not q["cfg"]["enum"]: continue
            s = solvers.Capture(mode)
            real_prios = [{tok.rev[k]: v for k, v in p.items()} for p in prios]
            res = list(m.select(*real_prios, solver=s))
            sel.append([[[tok(k), proj.I(v)] for k, v in r[0].items()] for r in res])
        q["select"] = sel
    return q

def drv_b64(case):
    puan, pg = _mods()
    m = _mk(case)
    if not _valid(m): return []
    tok = proj.Tok()
    box = _box(proj.leaves(m))
    if box is None: return []
    is_cfg = case["recipe"]["c"] == "Cfg"
    s = m.to_b64()
    back = pg.from_b64(s)
    out = [{"op": "b64", "model": proj.node(m, tok), "back": proj.node(back, tok),
            "shorts_before": _shorts(m, tok), "shorts_after": _shorts(back, tok),
            "q_before": _battery(m, box, tok, puan, is_cfg), "q_after": _battery(back, box, tok, puan, is_cfg),
            "again": proj.node(pg.from_b64(s), tok), "same_string": bool(back.to_b64() == s)}]
    if is_cfg:
        import puan.ndarray as pnd
        from . import solvers
        P = m.ge_polyhedron
        sp = P.to_b64()
        Q1 = pnd.ge_polyhedron_config.from_b64(sp)
        pP, pQ1 = proj.cfgpoly(P, tok), proj.cfgpoly(Q1, tok)
        def sel(poly):
            ids = [c["id"] for c in pP["cols"]]
            prios = [{}, {tok.rev[ids[-1]]: 2, tok.rev[ids[0]]: -1}] if ids else [{}]
            r = []
            for mode in ("capture", "exact"):
                if mode == "exact" and len(ids) > 12: continue
                cs = solvers.Capture(mode)
                res = list(poly.select(*prios, solver=cs))
                r.append({"objs": [[proj.I(x) for x in o] for c in cs.calls for o in c["objectives"]],
                          "res": [[[tok(k), proj.I(v)] for k, v in x[0].items()] for x in res]})
            return r
        sP, sQ = sel(P), sel(Q1)
        # unpack, edit the unpacked object in place, unpack the same string again: must still equal what was packed
        Q1[0, 0] += 1
        if Q1.default_prio_vector is not None and len(Q1.default_prio_vector): Q1.default_prio_vector[0] = 7
        Q2 = pnd.ge_polyhedron_config.from_b64(sp)
        out.append({"op": "b64poly", "p_before": pP, "p_after": pQ1, "p_again": proj.cfgpoly(Q2, tok), "sel_before": sP, "sel_after": sQ})
    return out
