"""Per-property orchestration: which specification universe TLC enumerates (P1), which drivers replay it
into the implementation and which independent cases are added (P2), and which clauses of the trace
specification belong to the property (P3/P4)."""
import copy, json, os, time
from . import core, drivers, gen, tlc
from .core import Machinery

LEAF = lambda i, lo=0, hi=1: {"c": "leaf", "id": i, "lo": lo, "hi": hi}

def universe(tier, classes, leaves=None, values=None, signs=(0, 1, -1), ids=("gen", "exp"), comp=2, kids=3, dict_ids=1, exp_ids=(), fix=(-1,), min_kids=1):
    return {"Leaves": {"$set": leaves or [LEAF("a"), LEAF("b"), LEAF("t", -1, 2)]},
            "Classes": set(classes), "Values": {"$set": list(values if values is not None else range(-2, 4))},
            "SignArgs": {"$set": list(signs)}, "IdOpts": set(ids), "MaxComp": comp, "MaxKids": kids, "DictIds": dict_ids, "ExpIds": set(exp_ids), "FixOpts": {"$set": list(fix)}, "MinKids": min_kids}

def random_cases(ctx, n, required, **kw):
    """seeded random recipes; every required coverage region must be hit (else the run is vacuous there)"""
    g = gen.Gen(ctx.rng, **kw)
    cases = []
    for i in range(n):
        r = g.recipe()
        for f in gen.features(r): ctx.region(f)
        cases.append({"recipe": r, "seed": ctx.rng.randrange(1 << 30), "leaf_str": bool(i % 2), "src": "random", "style": (i // 2) % 4})
    # a region the batch happened to miss is topped up (the generator is asked again until a recipe with that feature comes)
    missing = [f for f in required if not ctx.regions.get(f)]
    tries = 0
    while missing and tries < 200 * max(n, 50):
        tries += 1
        r = g.recipe()
        fs = gen.features(r)
        if any(f in fs for f in missing):
            for f in fs: ctx.region(f)
            cases.append({"recipe": r, "seed": ctx.rng.randrange(1 << 30), "leaf_str": False, "src": "random", "style": 0})
            missing = [f for f in required if not ctx.regions.get(f)]
    if missing:
        raise Machinery("random batch did not reach regions %s" % missing)
    return cases

def spec_cases(ctx, r, **extra):
    recipes = ctx.dump_values(r, "focus")
    recipes = [x for x in recipes if x.get("c") != "leaf"]
    return [dict({"recipe": x, "src": "spec", "leaf_str": bool(i % 2)}, **extra) for i, x in enumerate(recipes)]

def repo_test_events(ctx, ops, max_per_op=3000):
    """the repository's own tests (and doctests) run under the recording plugin; every recorded top-level call is added
    as an event (validated by TLC like every other event).  Nothing is written under the repository."""
    import subprocess
    out = os.path.join(ctx.work, "repo_tests.ndjson")
    env = dict(os.environ, REC_OUT=out, REC_OPS=",".join(ops), REC_MAX=str(max_per_op),
               HYPOTHESIS_STORAGE_DIRECTORY=os.path.join(ctx.work, "hyp"), PYTHONPATH=core.REPO + os.pathsep + core.VERIF)
    t0 = time.time()
    r = subprocess.run([os.sys.executable, "-m", "pytest", "-q", "-p", "no:cacheprovider", "-p", "harness.recorder", "--timeout=900",
                        "-o", "addopts=", "tests"], cwd=core.REPO, env=env, capture_output=True, text=True)
    n = 0
    if os.path.exists(out):
        for line in open(out):
            e = json.loads(line)
            ctx.add_event(e, {"src": "repo_tests", "driver": "recorder"}); n += 1
    ctx.notes.append("repository tests under the recorder: %d events of %s in %.0fs (%s)" % (n, list(ops), time.time() - t0, (r.stdout.strip().splitlines() or ["?"])[-1][:100]))
    ctx.region("repo_test_events", n)
    return n

REGIONS = ["kids>=4", "depth>=3", "shared_sub", "neg_lower_leaf", "value_out_of_range", "neg_over_compound",
           "explicit_id", "generated_id", "interleaved_ids"]
ALLC = ["AtLeast", "AtMost", "All", "Any", "Xor", "XNor", "Imply", "Not"]

def _stamp(cases, driver, **extra):
    for c in cases:
        c["driver"] = driver
        c.update(extra)
    return cases

def empty_cases(ctx, inv, **extra):
    """propositions without sub-propositions (All(), Any(), AtLeast(k, [])) alone and nested"""
    u = universe(ctx.tier, ["All", "Any", "AtLeast", "AtMost"], leaves=[LEAF("a"), LEAF("t", -1, 1)], values=[0, 1], signs=(0,), ids=("gen", "exp"), comp=2, kids=2, min_kids=0)
    r = ctx.model_check("PuanBuild", u, invariants=inv, dump=True, name="Build_empty")
    cs = [c for c in spec_cases(ctx, r, **extra) if _has_empty(c["recipe"])]
    ctx.region("empty_proposition", len(cs))
    return cs

def _has_empty(r):
    return r["c"] != "leaf" and (len(r["a"]) == 0 or any(_has_empty(x) for x in r["a"]))

# ------------------------------------------------------------------------------------------- C01
def run_c01(ctx):
    q = ctx.tier == "quick"
    if not q: ctx.lemma("BigMRow")
    u = universe(ctx.tier, ["AtLeast"], comp=2, kids=3, ids=("exp",), signs=(1, -1))
    r = ctx.model_check("PuanBuild", u, invariants=["C01"], dump=True, name="Build_C01")
    cases = spec_cases(ctx, r)
    u2 = universe(ctx.tier, ALLC, leaves=[LEAF("a"), LEAF("b"), LEAF("c")] if not q else [LEAF("a"), LEAF("b")],
                  values=[0, 1, 2], signs=(0,), ids=("gen",), comp=2, kids=2 if q else 3)
    r2 = ctx.model_check("PuanBuild", u2, invariants=["C01"], dump=True, name="Build_C01_classes")
    cases += spec_cases(ctx, r2)
    cases += random_cases(ctx, 300 if q else 4000, REGIONS, max_box=128)
    cases += empty_cases(ctx, ["C01"])
    # 16-bit leaf ranges: critical points instead of the full box
    wc = random_cases(ctx, 150 if q else 2000, ["wide_leaf"], wide=True, max_kids=3, depth=2, values=(-3, 40000))
    for c in wc: c["wide"] = True
    cases += wc
    cases = chain_preludes(cases) + edit_twins(ctx) + narrow_min_cases(ctx) + shared_depth_cases(ctx) + magnitude_cases(ctx)
    for k, c in enumerate(cases):
        if k % 5 == 4 and "style" not in c and "via" not in c:
            c["style"] = 1                      # leaves that are instances of a puan.variable sub class (the model is evaluated before it is encoded)
    ctx.region("leaves_of_a_variable_sub_class", len(cases) // 5)
    ctx.pmap(drivers.drv_to_poly, _stamp(cases, "drv_to_poly"))
    if not q: repo_test_events(ctx, ['to_poly'])
    ctx.validate()

def narrow_min_cases(ctx):
    """leaves whose range starts at the least value of a narrow integer type (given as numpy scalars of that type by the drivers)
    below nodes that negate them"""
    a = LEAF("a")
    out = []
    for lo in (-128, -32768):
        t = LEAF("t", lo, lo + 1)
        for r in (_R("Not", t), _R("Imply", t, a), _R("AtLeast", t, a, v=-1, s=-1, id="N"), _R("AtLeast", t, a, v=1, s=1, id="P"),
                  _R("All", _R("Not", t), a, id="A"), _R("XNor", t, a), _R("Any", _R("AtLeast", t, v=-lo, s=-1, id="M"), a)):
            out.append({"recipe": r, "src": "handmade"})
            out.append({"recipe": r, "src": "handmade", "form": 6})          # every value as a scalar of the narrowest numpy type
            out.append({"recipe": r, "src": "handmade", "form": 3})          # ... as numpy.int64
    ctx.region("leaf_at_narrow_type_minimum")
    return out

def magnitude_cases(ctx):
    """thresholds and big-M coefficients that are larger than any single leaf's range (sums of mid-sized integer leaves, a node over
    130 boolean leaves) and magnitudes beyond 2^24 (which a single precision float cannot hold); judged on critical points"""
    a = LEAF("a")
    P, Q, R_, S_ = LEAF("P", 0, 100), LEAF("Q", 0, 100), LEAF("R", -100, 27), LEAF("S", 0, 120)
    T, U = LEAF("T", 0, 33554433), LEAF("U", -16777218, 5)
    many = [LEAF("x%03d" % i) for i in range(130)]
    rs = [_R("All", _R("AtMost", P, Q, v=60, id="B"), a, id="A"),
          _R("Any", _R("AtLeast", P, Q, S_, v=150, s=1, id="B"), a, id="A"),
          _R("All", _R("AtLeast", R_, P, v=-90, s=-1, id="B"), _R("AtLeast", P, Q, v=128, s=1, id="C"), id="A"),
          _R("Imply", _R("AtMost", P, S_, v=127, id="B"), _R("AtLeast", Q, R_, v=101, s=1, id="C"), id="A"),
          _R("AtLeast", P, Q, S_, v=300, s=1, id="A"), _R("AtMost", P, Q, R_, v=-1, id="A"),
          _R("All", *many, id="A"), _R("Any", _R("AtLeast", *many, v=128, s=1, id="B"), a, id="A"),
          _R("All", _R("AtLeast", T, U, v=16777217, s=1, id="B"), _R("AtMost", T, v=25000003, id="C"), id="A"),
          _R("Any", _R("AtLeast", T, a, v=33554433, s=1, id="B"), _R("AtLeast", U, v=-16777217, s=1, id="C"), id="A"),
          _R("AtLeast", T, U, v=16777217, s=1, id="A"), _R("AtMost", T, U, v=16777219, id="A"),
          _R("Imply", _R("AtLeast", T, v=25000003, s=1, id="B"), _R("AtLeast", U, v=-16777215, s=1, id="C"), id="A")]
    ctx.region("magnitudes_beyond_leaf_ranges", len(rs))
    return [{"recipe": r, "src": "handmade", "wide": True} for r in rs]

def shared_depth_cases(ctx):
    """one sub-proposition OBJECT used at two different depths (directly below a node and again below a later sibling), in both id
    orders; the models are built with shared Python objects and queried several times"""
    x, y, z, v, w = (LEAF(i) for i in "xyzvw")
    out = []
    for bid, qid in (("B", "Q"), ("Q", "B"), ("B", "P"), ("Z", "C")):
        for Bn in (_R("Any", x, y, id=bid), _R("AtLeast", x, y, LEAF("t", -1, 1), v=1, s=1, id=bid), _R("All", x, y, id=bid)):
            P = _R("AtLeast", Bn, v, v=1, s=1, id="P" if qid != "P" else "P2")
            Q = _R("AtLeast", P, z, v=2, s=1, id=qid)
            for top in (_R("AtLeast", Bn, Q, w, v=2, s=1, id="R"), _R("Any", Bn, Q, id="R"), _R("All", _R("Not", Bn), Q, id="R"), _R("Imply", Bn, Q, id="R"),
                        _R("Xor", Bn, Q, id="R")):
                out.append({"recipe": top, "share": True, "src": "handmade"})
    ctx.region("object_shared_at_two_depths", len(out))
    return out

def range_twins(ctx):
    """pairs of models with generated ids that differ only in the declared range of an integer leaf (a generated id names the
    children, the threshold and the sign, not the children's ranges): each is queried after the other was, in the same process"""
    out = []
    b = LEAF("b")
    for (l1, h1), (l2, h2) in (((3, 5), (0, 5)), ((0, 5), (3, 5)), ((-2, 1), (0, 1)), ((0, 1), (0, 3)), ((1, 1), (0, 1)), ((-1, 2), (2, 4))):
        for mk in (lambda n: _R("AtLeast", n, v=3, s=1), lambda n: _R("AtLeast", n, b, v=2, s=1), lambda n: _R("Any", _R("AtLeast", n, b, v=2, s=1), b),
                   lambda n: _R("AtLeast", n, b, v=-1, s=-1), lambda n: _R("All", _R("AtLeast", n, v=1, s=1), _R("Not", _R("AtLeast", n, b, v=3, s=1)))):
            r1, r2 = mk(LEAF("n", l1, h1)), mk(LEAF("n", l2, h2))
            out.append({"recipe": r2, "prelude": [r1], "src": "handmade"})
    ctx.region("range_twin_in_same_process")
    return out

def edit_twins(ctx):
    """pairs of models that differ in one named rule only (an edited rule set, rebuilt in the same process): each one is checked
    after the other one has been built and encoded"""
    a, b, c, x = LEAF("a"), LEAF("b"), LEAF("c"), LEAF("x")
    pairs = []
    for v1, v2 in ((-1, -2), (-2, -1), (1, 2), (-1, 0)):
        for top in ("All", "Any"):
            inner = lambda v: _R("AtLeast", a, b, c, v=v, s=-1, id="B")
            pairs.append((_R(top, inner(v1), x, id="A"), _R(top, inner(v2), x, id="A")))
        pairs.append((_R("All", _R("Imply", x, _R("AtLeast", a, b, c, v=v1, s=-1, id="B"), id="I"), id="A"),
                      _R("All", _R("Imply", x, _R("AtLeast", a, b, c, v=v2, s=-1, id="B"), id="I"), id="A")))
    pairs.append((_R("All", _R("Any", a, b, id="B"), x, id="A"), _R("All", _R("Any", a, c, id="B"), x, id="A")))
    pairs.append((_R("All", _R("Any", a, b, id="B"), x, id="A"), _R("All", _R("All", a, b, id="B"), x, id="A")))
    out = []
    for r1, r2 in pairs:
        out.append({"recipe": r2, "prelude": [r1], "src": "handmade"})
        out.append({"recipe": r1, "prelude": [r2], "src": "handmade"})
    ctx.region("edited_twin_in_same_process")
    return out

def chain_preludes(cases, every=3):
    """neighbours in the (sorted) list of specified models differ minimally: every third one is checked after its neighbour"""
    for i in range(1, len(cases)):
        if i % every == 0 and "recipe" in cases[i - 1] and "prelude" not in cases[i]:
            cases[i]["prelude"] = [cases[i - 1]["recipe"]]
    return cases

# ------------------------------------------------------------------------------------------- C02
def run_c02(ctx):
    q = ctx.tier == "quick"
    u = universe(ctx.tier, ["AtLeast"], comp=2, kids=3, ids=("exp",), signs=(1, -1), values=range(-1, 3) if q else range(-2, 4))
    r = ctx.model_check("PuanBuild", u, invariants=["C02", "C02safe"], dump=True, name="Build_C02")
    cases = spec_cases(ctx, r)
    u2 = universe(ctx.tier, ALLC, leaves=[LEAF("a"), LEAF("b"), LEAF("c")] if not q else [LEAF("a"), LEAF("b")],
                  values=[0, 1, 2], signs=(0,), ids=("gen",), comp=2, kids=2 if q else 3)
    r2 = ctx.model_check("PuanBuild", u2, invariants=["C02", "C02safe"], dump=True, name="Build_C02_classes")
    cases += spec_cases(ctx, r2)
    cases += random_cases(ctx, 300 if q else 4000, REGIONS, max_box=64)
    # negation pushed inwards next to integer leaves that can go negative (Not / Imply / XNor over mixed children)
    u3 = universe(ctx.tier, ["Not", "Imply", "Any"] if q else ["Not", "Imply", "Any", "All"], leaves=[LEAF("a"), LEAF("t", -1, 1)] if q else [LEAF("a"), LEAF("b"), LEAF("t", -1, 1)], values=[1], signs=(0,), ids=("gen",), comp=3, kids=2)
    r3 = ctx.model_check("PuanBuild", u3, invariants=["C02", "C02safe"], dump=True, name="Build_C02_negations")
    cases += spec_cases(ctx, r3)
    wc = random_cases(ctx, 150 if q else 2000, ["wide_leaf"], wide=True, max_kids=3, depth=2, values=(-3, 40000))
    for c in wc: c["wide"] = True
    cases += wc
    cases = chain_preludes(cases) + edit_twins(ctx)
    ctx.pmap(drivers.drv_to_poly2, _stamp(cases, "drv_to_poly2", max_full=1 << 12))
    ctx.validate()

# ------------------------------------------------------------------------------------------- C03
def run_c03(ctx):
    q = ctx.tier == "quick"
    u = universe(ctx.tier, ["AtLeast"], comp=2, kids=3, ids=("exp",) if q else ("gen", "exp"), signs=(1, -1) if q else (0, 1, -1))
    r = ctx.model_check("PuanBuild", u, invariants=["C03"], dump=True, name="Build_C03")
    cases = spec_cases(ctx, r, n_over=4)
    # sub-propositions pre-fixed by their own bounds ("or by its bounds")
    u2 = universe(ctx.tier, ["AtLeast", "Any"], leaves=[LEAF("a"), LEAF("t", -1, 1)], comp=2, kids=2, ids=("exp",), signs=(0, -1), values=[0, 1, 2], fix=(-1, 0, 1))
    r2 = ctx.model_check("PuanBuild", u2, invariants=["C03"], dump=True, name="Build_C03_prefixed")
    cases += spec_cases(ctx, r2, n_over=2)
    cases += empty_cases(ctx, ["C03"], n_over=2)
    cases += random_cases(ctx, 300 if q else 4000, REGIONS + ["prefixed_compound"], max_box=128, prefix=0.2)
    cases += [dict(c, n_over=2) for c in narrow_min_cases(ctx)]
    cases += [dict(c, n_over=1) for c in range_twins(ctx)]
    cases += [dict(c, n_over=1) for c in shared_depth_cases(ctx)]
    # one dictionary used for two models with different leaves; integer leaves whose range contains -1 and -2
    a_, b_, x_, y_ = LEAF("a"), LEAF("b"), LEAF("x"), LEAF("y")
    t2 = LEAF("t", -2, 1)
    for r1, r2 in ((_R("All", a_, _R("Any", b_, t2, id="B"), id="A"), _R("Any", x_, _R("All", y_, a_, id="Q"), id="P")),
                   (_R("AtLeast", t2, a_, b_, v=-1, s=1, id="N"), _R("AtLeast", x_, t2, v=0, s=-1, id="M")),
                   (_R("Xor", a_, b_, t2), _R("Imply", x_, y_))):
        cases.append({"recipe": r1, "prelude": [r2], "src": "handmade", "n_over": 1})
        cases.append({"recipe": r2, "prelude": [r1], "src": "handmade", "n_over": 1})
    ctx.pmap(drivers.drv_evaluate, _stamp(cases, "drv_evaluate"))
    if not q: repo_test_events(ctx, ['evaluate'])
    ctx.validate()

# ------------------------------------------------------------------------------------------- C04
def cicje_recipes():
    """every rule dictionary shape of Imply.from_cicJE as a recipe: condition (ALL/ANY over one or two ALL/ANY sub conditions,
    relation keys present or left to their documented default) and consequence of each rule type"""
    import itertools
    a, b, c, d, x, y = (LEAF(i) for i in "abcdxy")
    cons = [_R("All", x, y), _R("Any", x, y), _R("Xor", x, y), _R("AtMost", x, y, v=1), _R("Not", _R("Any", x, y)),
            _R("All", x, y, id="K"), _R("Xor", x, y, LEAF("z"))]
    out = []
    for cn in cons:
        out.append(cn)
        for ic in ("All", "Any"):
            for leaves in ((a, b), (a, b, c), (a,)):
                out.append(_R("Imply", _R(ic, *leaves), cn))
                out.append(_R("Imply", _R(ic, *leaves, id="S1"), cn, id="R1"))
        for oc, i1, i2 in itertools.product(("All", "Any"), repeat=3):
            out.append(_R("Imply", _R(oc, _R(i1, a, b), _R(i2, c, d)), cn))
            out.append(_R("Imply", _R(oc, _R(i1, a, b, id="S1"), _R(i2, c, d), id="C1"), cn, id="R1"))
    # sub conditions without components (an empty ALL holds, an empty ANY does not), alone and next to an ordinary one
    for cn in cons[:4]:
        for oc, i1, i2 in itertools.product(("All", "Any"), repeat=3):
            out.append(_R("Imply", _R(oc, _R(i1, a, b), _R(i2)), cn))
        out.append(_R("Imply", _R("Any"), cn)); out.append(_R("Imply", _R("All"), cn))
    return out

def run_c04(ctx):
    q = ctx.tier == "quick"
    u = universe(ctx.tier, ALLC, leaves=[LEAF("a"), LEAF("b"), LEAF("c")], values=[0, 1, 2, 3], signs=(0, 1),
                 ids=("gen", "exp") if not q else ("gen",), comp=2, kids=3)
    r = ctx.model_check("PuanBuild", u, invariants=["C04"], dump=True, name="Build_C04")
    cases = spec_cases(ctx, r, vias=["ctor", "from_list", "json", "cicJE", "ctor_sub", "ctor_gen"])
    # three levels: a negating connective over a threshold proposition that mixes leaves and sub-propositions
    a_, b_, p_, q_, x_ = (LEAF(i) for i in "abpqx")
    for mid in (_R("All", a_, _R("Any", p_, q_)), _R("AtLeast", a_, _R("Any", p_, q_), v=2, s=1), _R("Any", a_, b_, _R("All", p_, q_)),
                _R("All", a_, b_, _R("Any", p_, q_)), _R("AtLeast", a_, b_, _R("All", p_, q_), _R("Any", p_, x_), v=2, s=1), _R("AtMost", a_, _R("Any", p_, q_), v=1)):
        for outer in (_R("Imply", mid, x_), _R("Not", mid), _R("XNor", mid, x_), _R("Xor", mid, x_), _R("Imply", x_, _R("Not", mid)), _R("All", _R("Not", mid), x_)):
            cases.append({"recipe": outer, "src": "handmade", "vias": ["ctor", "json", "ctor_sub"]})
    ctx.region("negated_mixed_threshold_depth3")
    # a threshold proposition over exactly ONE sub-proposition below a negating connective
    for C in (_R("Any", p_, q_), _R("All", p_, q_), _R("Any", p_, q_, id="C")):
        for w in (_R("AtMost", C, v=0), _R("AtMost", C, v=1), _R("AtLeast", C, v=2, s=1), _R("AtLeast", C, v=1, s=0), _R("All", C), _R("Any", C), _R("AtMost", C, v=1, id="W")):
            for outer in (_R("Not", w), _R("Imply", w, x_), _R("Imply", x_, _R("Not", w)), _R("XNor", w, x_)):
                cases.append({"recipe": outer, "src": "handmade", "vias": ["ctor", "json"]})
    ctx.region("negated_single_compound_child")
    # two models of one process that differ two levels below a negated proposition only, under the same explicit id
    for deep1, deep2 in ((_R("All", a_, b_, id="B"), _R("Any", a_, b_, id="B")), (_R("AtLeast", a_, b_, p_, v=2, s=1, id="B"), _R("Any", a_, b_, p_, id="B")),
                         (_R("Xor", a_, b_, id="B"), _R("All", a_, b_, id="B"))):
        for mk in (lambda d: _R("Not", _R("All", _R("Any", d, p_), q_)), lambda d: _R("Imply", _R("Any", _R("All", d, p_), q_), x_),
                   lambda d: _R("XNor", _R("Any", d, p_, id="K"), q_), lambda d: _R("All", _R("Not", _R("Any", _R("All", d, q_), p_)), x_)):
            cases.append({"recipe": mk(deep2), "prelude": [mk(deep1)], "src": "handmade", "vias": ["ctor", "json"]})
            cases.append({"recipe": mk(deep1), "prelude": [mk(deep2)], "src": "handmade", "vias": ["ctor"]})
    ctx.region("edited_twin_two_levels_below_a_negation")
    rc = random_cases(ctx, 300 if q else 3000, ["kids>=4", "depth>=3", "explicit_id", "generated_id"] + ["cls_" + c for c in ALLC],
                      ints=False, documented=True, max_box=64, max_kids=5)
    for c in rc: c["vias"] = ["ctor", "json", "from_list", "cicJE", "ctor_sub", "ctor_map"]
    cases += rc
    cj = [{"recipe": r, "src": "cicje", "vias": ["cicJE", "ctor"]} for r in cicje_recipes()]
    ctx.region("cicje_shapes", len(cj))
    cases += cj
    ctx.pmap(drivers.drv_build, _stamp(cases, "drv_build"))
    ctx.validate()

# ------------------------------------------------------------------------------------------- C05
def run_c05(ctx):
    q = ctx.tier == "quick"
    if not q: ctx.lemma("NegComplement")
    u = universe(ctx.tier, ["AtLeast"], leaves=[LEAF("A"), LEAF("b"), LEAF("t", -1, 2)], comp=2, kids=3, ids=("exp",) if q else ("exp", "gen"), signs=(1, -1), values=range(-1, 3) if q else range(-2, 4))
    r = ctx.model_check("PuanBuild", u, invariants=["C05"], dump=True, name="Build_C05")
    cases = spec_cases(ctx, r)
    # two compound siblings (the all-compound and mixed branches of the inward push)
    u2 = universe(ctx.tier, ["AtLeast"], leaves=[LEAF("a"), LEAF("u", 0, 2), LEAF("t", -1, 1)], values=[0, 1, 2] if q else [-1, 0, 1, 2, 3],
                  signs=(0,) if q else (0, -1), ids=("gen",), comp=3, kids=2)
    r2 = ctx.model_check("PuanBuild", u2, invariants=["C05"], dump=True, name="Build_C05_siblings")
    cases += spec_cases(ctx, r2)
    # boolean leaves with degenerate bounds (1,1) / (0,0) next to a compound (solver-safe form must be kept)
    u3 = universe(ctx.tier, ["AtLeast"], leaves=[LEAF("a"), LEAF("k", 1, 1), LEAF("o", 0, 0)], values=[1, 2, 3], signs=(0,), ids=("gen",), comp=2, kids=3)
    r3 = ctx.model_check("PuanBuild", u3, invariants=["C05"], dump=True, name="Build_C05_degenerate")
    cases += spec_cases(ctx, r3)
    cases += random_cases(ctx, 300 if q else 4000, REGIONS + ["degenerate_leaf"], max_box=128)
    # the configurator's defaulted Any / Xor inherit negate(): their restructured "at least one" half must be negated as it stands
    for names in (("k", "l", "m"), ("a", "b", "c", "d"), ("a", "b", "c"), ("x", "y", "z"), ("p", "q"), ("b", "a", "d", "c")):
        for cls in ("ccXor", "ccAny"):
            for dflt in names[:3] + ("",):
                base = dict(_R(cls, *[LEAF(i) for i in names]), d=dflt)
                for r in (base, dict(base, id="X"), _R("Not", base), _R("All", base, LEAF("w"), id="A"), _R("Imply", LEAF("w"), base)):
                    cases.append({"recipe": r, "src": "handmade"})
    ctx.region("defaulted_cc_group_negated")
    # a named rule edited between two versions of a model whose other nodes have generated ids (negated in the same process)
    x_, y_, z_ = LEAF("x"), LEAF("y"), LEAF("z")
    for B1, B2 in ((_R("All", x_, y_, id="B"), _R("Any", x_, y_, id="B")), (_R("Any", x_, y_, id="B"), _R("All", x_, y_, id="B")),
                   (_R("AtLeast", x_, y_, z_, v=2, s=1, id="B"), _R("AtLeast", x_, y_, z_, v=1, s=1, id="B")), (_R("Xor", x_, y_, id="B"), _R("XNor", x_, y_, id="B"))):
        for mk in (lambda B: _R("Any", B, z_), lambda B: _R("Not", _R("Any", B, z_)), lambda B: _R("Imply", B, z_), lambda B: _R("All", _R("Any", B, z_), LEAF("w"))):
            cases.append({"recipe": mk(B2), "prelude": [mk(B1)], "src": "handmade"})
    # implications whose consequence is an integer item that can be negative
    for cons in (LEAF("t", -1, 2), LEAF("t", -2, 1), LEAF("t", -1, 0)):
        for cond in (LEAF("a"), _R("Any", LEAF("a"), LEAF("b")), LEAF("u", 0, 2)):
            for r_ in (_R("Imply", cond, cons), _R("Not", _R("Imply", cond, cons)), _R("Any", _R("Imply", cond, cons, id="I"), LEAF("c")), _R("Imply", LEAF("c"), _R("Imply", cond, cons))):
                cases.append({"recipe": r_, "src": "handmade"})
    ctx.region("integer_consequence")
    ctx.pmap(drivers.drv_negate, _stamp(cases, "drv_negate"))
    if not q: repo_test_events(ctx, ['negate'])
    ctx.validate()

# ------------------------------------------------------------------------------------------- C06
def run_c06(ctx):
    q = ctx.tier == "quick"
    if not q: ctx.lemma("IntervalSound")
    u = universe(ctx.tier, ["AtLeast"], comp=2, kids=3, ids=("exp",), signs=(1, -1), values=range(-1, 3) if q else range(-2, 4), dict_ids=2)
    r = ctx.model_check("PuanBuild", u, invariants=["C06"], dump=True, name="Build_C06")
    cases = spec_cases(ctx, r, max_interps=12 if q else 60)
    rc = random_cases(ctx, 300 if q else 4000, REGIONS + ["prefixed_compound"], max_box=128, prefix=0.2)
    for c in rc: c["max_interps"] = 12 if q else 40
    rc += [dict(c, max_interps=12) for c in narrow_min_cases(ctx)]
    rc += [dict(c, max_interps=20) for c in range_twins(ctx)]
    rc += [dict(c, max_interps=30) for c in shared_depth_cases(ctx)]
    cases += rc
    ctx.pmap(drivers.drv_partial, _stamp(cases, "drv_partial"))
    if not q: repo_test_events(ctx, ['evaluate'])
    ctx.validate()

# ------------------------------------------------------------------------------------------- C07
def run_c07(ctx):
    q = ctx.tier == "quick"
    u = universe(ctx.tier, ["AtLeast"], comp=2, kids=3 if not q else 2, ids=("exp",), signs=(1, -1), values=range(-1, 3) if q else range(-2, 4), dict_ids=2)
    r = ctx.model_check("PuanBuild", u, invariants=["C07"], dump=True, name="Build_C07")
    cases = spec_cases(ctx, r, max_ids=2, n_dicts=10 if q else 40)
    u2 = universe(ctx.tier, ["AtLeast", "Any"], leaves=[LEAF("a"), LEAF("t", -1, 1)], comp=2, kids=2, ids=("exp",), signs=(0, -1), values=[0, 1, 2], fix=(-1, 0, 1), dict_ids=1)
    r2 = ctx.model_check("PuanBuild", u2, invariants=["C07"], dump=True, name="Build_C07_prefixed")
    cases += spec_cases(ctx, r2, max_ids=2, n_dicts=8 if q else 30)
    cases += empty_cases(ctx, ["C07"], max_ids=2, n_dicts=6)
    rc = random_cases(ctx, 250 if q else 3000, REGIONS + ["prefixed_compound"], max_box=64, prefix=0.2)
    for c in rc: c.update(max_ids=3, n_dicts=8 if q else 24)
    cases += rc
    cases += [dict(c, max_ids=2, n_dicts=8) for c in shared_depth_cases(ctx)]
    # integer leaves whose range contains both -1 and -2 (the same model object is evaluated for both)
    t2, a_, b_ = LEAF("t", -2, 1), LEAF("a"), LEAF("b")
    for r_ in (_R("AtLeast", t2, a_, b_, v=-1, s=1, id="N"), _R("All", a_, _R("Any", b_, t2, id="B"), id="A"), _R("AtLeast", a_, t2, v=0, s=-1, id="M"),
               _R("Xor", a_, b_, t2), _R("Imply", _R("AtLeast", t2, v=-1, s=1), a_)):
        cases.append({"recipe": r_, "src": "handmade", "max_ids": 2, "n_dicts": 10})
    # magnitudes beyond the default integer range, in the assumption and in the later interpretation
    X, Y, W, Z_ = LEAF("x", 0, 60000), LEAF("y", 0, 100), LEAF("w", -50000, 0), LEAF("z", -40000, 40000)
    wide = [(_R("AtLeast", X, Y, v=50000, s=1, id="A"), [{"x": 60000}, {"x": [40000, 60000]}, {"y": 100}, {"x": 32768, "y": 0}]),
            (_R("AtLeast", W, v=40000, s=-1, id="A"), [{"w": -50000}, {"w": [-50000, -32769]}]),
            (_R("All", _R("AtLeast", X, Z_, v=70000, s=1, id="B"), _R("AtMost", Z_, v=-32769, id="C"), a_, id="A"), [{"x": 60000}, {"z": -40000}, {"z": 33000, "x": 40000}, {"B": 1}]),
            (_R("Imply", _R("AtLeast", Z_, v=32768, s=1, id="B"), _R("AtLeast", W, Y, v=-32768, s=1, id="C"), id="A"), [{"z": 32768}, {"w": -32769}, {"z": [32767, 32769]}])]
    for r_, ds in wide:
        cases.append({"recipe": r_, "src": "handmade", "dicts": ds})
    ctx.region("assumptions_beyond_the_default_range", len(wide))
    ctx.pmap(drivers.drv_assume, _stamp(cases, "drv_assume"))
    if not q: repo_test_events(ctx, ['assume'])
    ctx.validate()

# ------------------------------------------------------------------------------------------- C08
def run_c08(ctx):
    q = ctx.tier == "quick"
    u = universe(ctx.tier, ["AtLeast"], comp=2, kids=3 if not q else 2, ids=("exp",), signs=(1, -1), values=range(-1, 3) if q else range(-2, 4), dict_ids=2)
    r = ctx.model_check("PuanBuild", u, invariants=["C08"], dump=True, name="Build_C08")
    cases = spec_cases(ctx, r, max_ids=2, n_dicts=10 if q else 40)
    u2 = universe(ctx.tier, ["AtLeast", "Any"], leaves=[LEAF("a"), LEAF("t", -1, 1)], comp=2, kids=2, ids=("exp",), signs=(0, -1), values=[0, 1, 2], fix=(-1, 0, 1), dict_ids=1)
    r2 = ctx.model_check("PuanBuild", u2, invariants=["C08"], dump=True, name="Build_C08_prefixed")
    cases += spec_cases(ctx, r2, max_ids=2, n_dicts=8 if q else 30)
    cases += empty_cases(ctx, ["C08"], max_ids=2, n_dicts=6)
    rc = random_cases(ctx, 250 if q else 3000, REGIONS + ["prefixed_compound"], max_box=64, prefix=0.2)
    for c in rc: c.update(max_ids=3, n_dicts=8 if q else 24)
    cases += rc
    ctx.pmap(drivers.drv_reduce, _stamp(cases, "drv_reduce"))
    if not q: repo_test_events(ctx, ['reduce'])
    ctx.validate()

# ------------------------------------------------------------------------------------------- C10
def _R(c, *a, id="", v=0, s=0):
    return {"c": c, "a": list(a), "id": id, "v": v, "s": s, "d": "", "f": -1}

def adversarial_handmade():
    a, b, c, x, y = LEAF("a"), LEAF("b"), LEAF("c"), LEAF("x"), LEAF("y")
    out = []
    # fixed findings D4 (regression): same id, different bounds with equal sums / the -1,-2 hash pair
    for b1, b2 in (((0, 3), (1, 2)), ((-1, 3), (-2, 3)), ((-1, 0), (-2, 0)), ((0, 5), (2, 3)), ((-2, -1), (-1, -2 + 0)),
                   ((-1, 10), (-11, 0)), ((1, 23), (12, 3)), ((1, 234), (12, 34)), ((-2, 10), (-21, 0)), ((0, 11), (1, 10)), ((1, 11), (11, 1 + 10))):
        if b2[0] > b2[1]: continue
        out.append(_R("All", _R("Any", LEAF("a", *b1), b, id="B"), _R("Any", LEAF("a", *b2), c, id="C")))
    # the same id defined with thresholds -1 and -2 (hash(-1) == hash(-2) in CPython), next to each other and at different depths
    for v1, v2 in ((-1, -2), (-2, -1)):
        B1 = _R("AtLeast", a, b, c, v=v1, s=-1, id="B"); B2 = _R("AtLeast", a, b, c, v=v2, s=-1, id="B")
        out.append(_R("All", B1, B2))
        out.append(_R("All", _R("Any", B1, x), _R("Any", B2, y)))
        out.append(_R("All", B1, _R("Any", _R("All", B2, x), y)))
        out.append(_R("All", _R("Not", _R("AtLeast", a, b, c, v=-v1 + 1, s=1, id="B")), _R("Not", _R("AtLeast", a, b, c, v=-v2 + 1, s=1, id="B"))))
    # cycles that close through leaf references between DIFFERENT sub trees (no node is an ancestor of its own id)
    out.append(_R("All", _R("Any", LEAF("B"), x, id="A"), _R("Any", LEAF("A"), y, id="B")))
    out.append(_R("All", _R("Any", LEAF("B"), x, id="A"), _R("Any", LEAF("C"), y, id="B"), _R("Any", LEAF("A"), c, id="C")))
    out.append(_R("Any", _R("All", _R("Any", LEAF("B"), x, id="A"), y), _R("All", _R("Any", LEAF("A"), y, id="B"), x)))
    out.append(_R("All", _R("Any", LEAF("B"), x, id="A"), _R("Any", _R("All", LEAF("A"), y, id="K"), c, id="B")))
    out.append(_R("All", _R("Any", LEAF("B"), x, id="A"), _R("Any", a, y, id="B")))              # a reference without a cycle (control)
    # an id defined twice below different parents with equal child ids, the definitions differing one level further down
    for K1, K2 in ((_R("Any", a, b, id="K"), _R("All", a, b, id="K")), (_R("Any", a, b, id="K"), _R("Any", a, c, id="K")),
                   (_R("AtLeast", a, b, c, v=2, s=1, id="K"), _R("AtLeast", a, b, c, v=3, s=1, id="K"))):
        out.append(_R("All", _R("Any", _R("Any", K1, x, id="B"), y), _R("Any", _R("Any", K2, x, id="B"), LEAF("z"))))
        out.append(_R("All", _R("Any", K1, x, id="B"), _R("Any", _R("Any", K2, x, id="B"), y)))
    # generated-id coincidence: children "ab","c" and "a","bc" concatenate to the same id
    out.append(_R("All", _R("Any", _R("Any", LEAF("ab"), c), x), _R("Any", _R("Any", a, LEAF("bc")), y)))
    out.append(_R("All", _R("Any", LEAF("ab"), c), _R("Any", a, LEAF("bc"))))
    # ids that contain the separator of the text form
    out.append(_R("All", _R("Any", _R("Any", LEAF("a,b"), id="S"), x), _R("Any", _R("Any", a, b, id="S"), y)))
    out.append(_R("All", _R("Any", _R("Any", LEAF("a,b"), c, id="S"), x), _R("Any", _R("Any", a, LEAF("b,c"), id="S"), y)))
    # same explicit id, different value / sign / children, at different depths
    out.append(_R("All", _R("AtLeast", a, b, id="P", v=1), _R("Any", _R("AtLeast", a, b, id="P", v=2), c)))
    out.append(_R("All", _R("AtLeast", a, b, id="P", v=1, s=1), _R("Any", _R("AtLeast", a, b, id="P", v=1, s=-1), c)))
    out.append(_R("All", _R("Any", a, b, id="P"), _R("Any", _R("Any", a, c, id="P"), x)))
    # self reference and two-step cycle through by-reference leaves
    out.append(_R("All", LEAF("P"), a, id="P"))
    out.append(_R("All", _R("All", LEAF("Q"), a, id="P"), _R("All", LEAF("P"), b, id="Q")))
    # shared identical sub-propositions (must be accepted)
    sh = _R("Any", a, b, id="S")
    out.append(_R("All", _R("Any", sh, c, id="L"), _R("Any", sh, x, id="R"), id="T"))
    shg = _R("Any", a, b)
    out.append(_R("All", _R("Any", shg, c), _R("All", shg, x), shg))
    out.append(_R("Xor", _R("All", shg, c), _R("Imply", shg, x), _R("Not", _R("All", shg, y))))
    return out

def _cap(ctx, cs, r, cap=60000):
    """every state of a universe is model-checked by TLC; at most `cap` of them are replayed into the library (memory: the events of one
    check are held by one process)"""
    if len(cs) <= cap: return cs
    ctx.notes.append("a seeded sample of %d of the %d enumerated models of one universe is replayed (all are model-checked by TLC)" % (cap, len(cs)))
    return ctx.rng.sample(cs, cap)

def run_c10(ctx):
    q = ctx.tier == "quick"
    A = lambda lo, hi: LEAF("a", lo, hi)
    cases = []
    u1 = universe(ctx.tier, ["Any", "AtLeast"], leaves=[A(0, 1), A(0, 3), A(1, 2), LEAF("b"), LEAF("P")], values=[1, 2], signs=(0,),
                  ids=("gen", "exp"), exp_ids=("P", "Q"), comp=2, kids=2)
    r = ctx.model_check("PuanBuild", u1, invariants=["C10"], dump=True, name="Build_C10_adv")
    cases += _cap(ctx, spec_cases(ctx, r), r)
    u2 = universe(ctx.tier, ["Any", "AtLeast"], leaves=[A(-1, 3), A(-2, 3), LEAF("b")] + ([] if q else [A(-1, 0), A(-2, 0), LEAF("P")]), values=[1, 2], signs=(0, -1) if not q else (0,),
                  ids=("gen", "exp"), exp_ids=("P", "Q"), comp=2, kids=2)
    r = ctx.model_check("PuanBuild", u2, invariants=["C10"], dump=True, name="Build_C10_adv_neg")
    cases += _cap(ctx, spec_cases(ctx, r), r)
    # twins: two definitions of one id (opposite signs over symmetric ranges, different values, bounds with equal sums) under different parents
    u4 = universe(ctx.tier, ["AtLeast"], leaves=[LEAF("t", -2, 2), LEAF("b"), A(0, 3), A(1, 2)] if not q else [LEAF("t", -2, 2), LEAF("b"), A(0, 3)], values=[-2, -1, 1],
                  signs=(1, -1), ids=("exp",) if q else ("gen", "exp"), exp_ids=("P",), comp=2, kids=2)
    r = ctx.model_check("PuanBuild", u4, invariants=["C10"], dump=True, name="Build_C10_twins")
    cases += _cap(ctx, spec_cases(ctx, r), r)
    u3 = universe(ctx.tier, ["Any", "All"] if q else ["Any", "All", "AtMost"], leaves=[LEAF("a"), LEAF("b"), LEAF("c")] if not q else [LEAF("a"), LEAF("b")], values=[1],
                  signs=(0,), ids=("gen", "exp"), comp=3, kids=2)
    r = ctx.model_check("PuanBuild", u3, invariants=["C10"], dump=True, name="Build_C10_dag")
    cases += _cap(ctx, spec_cases(ctx, r), r)
    cases += [{"recipe": x, "src": "handmade"} for x in adversarial_handmade()]
    cases += random_cases(ctx, 400 if q else 5000, ["shared_sub", "depth>=3", "kids>=4", "explicit_id", "generated_id"], max_box=1 << 20)
    # copies of one named sub-proposition whose children are spelled differently (bare ids / variable objects, mixed within a node)
    a_, b_, c_, d_ = LEAF("a"), LEAF("b"), LEAF("c"), LEAF("d")
    for G in (_R("Any", a_, b_, id="G"), _R("All", a_, b_, c_, id="G"), _R("AtLeast", b_, c_, v=1, s=1, id="G"), _R("Xor", a_, b_, id="G"), _R("Any", a_, LEAF("t", -1, 2), b_, id="G")):
        for top in (_R("All", _R("Any", G, c_, id="P"), _R("Any", G, d_, id="Q"), id="T"), _R("Any", _R("All", G, d_, id="P"), G, id="T"), _R("Imply", _R("All", G, c_), _R("Any", G, d_), id="T"),
                    _R("AtLeast", _R("AtMost", G, a_, v=1, id="P"), _R("All", b_, G, id="Q"), v=1, s=1, id="T")):
            cases.append({"recipe": copy.deepcopy(top), "src": "handmade", "style": 4})
    for k, c in enumerate(cases):
        if k % 3 == 2 and "style" not in c: c["style"] = 4
    ctx.region("copies_with_mixed_spellings")
    ctx.pmap(drivers.drv_errors, _stamp(cases, "drv_errors"))
    if not q: repo_test_events(ctx, ['errors'])
    ctx.validate()

# ------------------------------------------------------------------------------------------- C16 / C17
SERIAL_CLASSES = ALLC + ["ccAny", "ccXor"]
def serial_cases(ctx, inv, small=False):
    q = ctx.tier == "quick"
    cases = []
    # every class of the JSON class map, two applications, explicit and generated ids, an integer leaf
    u = universe(ctx.tier, SERIAL_CLASSES, leaves=[LEAF("a"), LEAF("b"), LEAF("t", -1, 2)] if not (q and small) else [LEAF("a"), LEAF("t", -1, 2)],
                 values=[0, 1, 2] if q else [-1, 0, 1, 2], signs=(0, 1) if q else (0, 1, -1),
                 ids=("gen", "exp"), comp=2, kids=2 if q else 3)
    r = ctx.model_check("PuanBuild", u, invariants=inv, dump=True, name="Build_serial")
    cases += spec_cases(ctx, r)
    # configurators: a StingyConfigurator over (defaulted) Any/Xor rules
    u2 = universe(ctx.tier, ["ccAny", "ccXor", "Cfg"] if q else ["ccAny", "ccXor", "Imply", "Cfg"], leaves=[LEAF("a"), LEAF("b"), LEAF("c")], values=[1], signs=(0,),
                  ids=("gen", "exp"), comp=2 if q else 3, kids=3 if q else 2)
    r2 = ctx.model_check("PuanBuild", u2, invariants=inv, dump=True, name="Build_serial_cfg")
    cs = [c for c in spec_cases(ctx, r2) if c["recipe"]["c"] == "Cfg"]
    cases += cs
    g = gen.Gen(ctx.rng, classes=SERIAL_CLASSES, max_box=64)
    n = 0
    while n < (200 if q else 2500):
        rr = g.recipe()
        if n % 3 == 0:       # wrap every third one into a configurator with an explicit or generated id
            rules = [_rename(x, "R%d" % j) for j, x in enumerate([rr] + [g.recipe() for _ in range(ctx.rng.randint(0, 2))])]
            rr = {"c": "Cfg", "a": rules, "id": "cfg" if n % 2 else "", "v": 0, "s": 0, "d": "", "f": -1}
        for f in gen.features(rr): ctx.region(f)
        cases.append({"recipe": rr, "src": "random", "leaf_str": bool(n % 2)})
        n += 1
    # explicit ids that look like generated ones; XNor over three and more members with sub-propositions (the order of its two halves
    # follows generated ids: several leaf names); a defaulted group whose only other alternative is a named sub-proposition
    a, b, c = LEAF("a"), LEAF("b"), LEAF("c")
    hm = [_R("All", _R("Any", a, b, id="VARIANT_A"), c, id="VARX"), _R("Any", _R("All", a, b, id="VAR1"), _R("Not", _R("Any", a, c, id="VARb")))]
    for n1, n2, n3, n4 in (("a", "b", "c", "d"), ("k", "l", "m", "n"), ("p", "q", "r", "s"), ("x", "y", "z", "w"), ("e", "f", "g", "h"), ("u", "v", "i", "j")):
        hm.append(_R("XNor", _R("Any", LEAF(n1), LEAF(n2)), LEAF(n3), LEAF(n4)))
        hm.append(_R("XNor", _R("All", LEAF(n1), LEAF(n2)), _R("Any", LEAF(n3), LEAF(n4)), LEAF(n1), id="XN"))
        hm.append(_R("XNor", LEAF(n1), LEAF(n2), _R("AtLeast", LEAF(n3), LEAF(n4), LEAF(n1), v=2, s=1)))
        for grp in ("ccAny", "ccXor"):
            hm.append(dict(_cc(grp, LEAF(n1), _R("All", LEAF(n2), LEAF(n3), id="BC")), d=n1))
            hm.append(_cc("Cfg", dict(_cc(grp, LEAF(n1), _R("All", LEAF(n2), LEAF(n3), id="BC"), id="X"), d=n1), id="cfg"))
            hm.append(_cc("Cfg", dict(_cc(grp, LEAF(n1), _R("Any", LEAF(n2), LEAF(n3))), d=n1), _R("Imply", LEAF(n4), _R("Any", LEAF(n2), LEAF(n3)))))
    # defaulted groups whose default item sorts before the generated ids (upper case, digits)
    for grp in ("ccAny", "ccXor"):
        for ids_, dflt in ((("A", "B", "c"), "A"), (("Q", "b", "c"), "Q"), (("1x", "b", "c"), "1x"), (("a", "B", "c"), "B")):
            g_ = dict(_cc(grp, *[LEAF(i) for i in ids_]), d=dflt)
            hm += [g_, dict(g_, id="X"), _cc("Cfg", dict(g_, id="X"), id="cfg"), _cc("Cfg", g_, _R("Any", LEAF("x"), LEAF("y")))]
    # implications whose consequence id sorts before the condition id (upper case / digit ids against generated VAR.. ids, D before C)
    for cons in (LEAF("C"), LEAF("A"), LEAF("7up"), _R("All", a, c, id="C"), dict(_cc("ccXor", LEAF("B"), LEAF("A2"), id="C0"), d="B")):
        for cond in (_R("Any", a, b), _R("Any", a, b, id="D"), _R("All", a, _R("Any", b, c)), LEAF("z")):
            hm.append(_R("Imply", cond, cons))
            hm.append(_R("Imply", cond, cons, id="R"))
            hm.append(_cc("Cfg", _R("Imply", cond, cons, id="R"), dict(_cc("ccAny", a, b, c, id="X"), d="a"), id="cfg"))
    cases += [{"recipe": r_, "src": "handmade"} for r_ in hm]
    ctx.region("explicit_id_like_generated")
    return cases

def run_c16(ctx):
    cases = serial_cases(ctx, ["C16"])
    # regression witnesses of the fixed findings D5, D6 and the generated-id emission of defaulted Any/Xor
    a, b = LEAF("a"), LEAF("b")
    cases += [{"recipe": x, "src": "handmade"} for x in [
        _R("AtLeast", b, LEAF("u", 0, 4), id="N1", v=0, s=1),
        _R("XNor", _R("Any", a, b)), _R("XNor", _R("Any", a, b), _R("All", LEAF("c"), LEAF("d")), _R("Any", LEAF("e"), LEAF("f"))),
        _R("XNor", _R("Any", a, b), LEAF("c"), LEAF("d")),
        dict(_R("Cfg", dict(_R("ccAny", a, b, LEAF("c")), d="a"), dict(_R("ccXor", LEAF("x"), LEAF("y")), d="x"), id="cfg")),
        dict(_R("Cfg", dict(_R("ccAny", LEAF("s", 0, 3), b, LEAF("c")), d="s"), id="cfg")),
        dict(_R("Cfg", dict(_R("ccAny", LEAF("petrol"), LEAF("diesel"), LEAF("el")), d="petrol", d2="diesel"), id="cfg")),
        dict(_R("Cfg", dict(_R("ccAny", a, b, LEAF("c")), d="c", d2="a"), dict(_R("ccXor", LEAF("x"), LEAF("y"), LEAF("z")), d="z", d2="x"))),
        _R("Imply", _R("AtMost", LEAF("t", -2, 2), v=-1), b), _R("Imply", _R("AtLeast", a, v=1, s=-1), b), _R("Imply", _R("AtLeast", LEAF("t", -2, 2), v=1, s=-1), b, id="R"),
    ]]
    # defaulted Xor / Any over differently named members (generated ids decide the order of the two halves)
    for names in ("klm", "ghi", "bcd", "xyz", "pqr", "abcd", "efg", "mno"):
        for dflt in (names[0], names[-1]):
            cases.append({"recipe": dict(_R("Cfg", dict(_R("ccXor", *[LEAF(x) for x in names]), d=dflt), dict(_R("ccAny", *[LEAF(x) for x in names[::-1]]), d=dflt), id="cfg")), "src": "handmade"})
            cases.append({"recipe": dict(_R("ccXor", *[LEAF(x) for x in names]), d=dflt), "src": "handmade"})
    cases += default_object_cases(ctx) + var_prefix_cases(ctx)
    ctx.pmap(drivers.drv_json, _stamp(cases, "drv_json"))
    ctx.validate()

def default_object_cases(ctx):
    """defaulted groups whose default is handed over as the option OBJECT (an item, or - observation O13 - a named sub-proposition
    that is one of the options), next to the same groups with the default named by id"""
    out = []
    pk = lambda i: _R("All", LEAF("p1"), LEAF("p2"), id=i)
    for grp in ("ccAny", "ccXor"):
        for opts, d in (((pk("PACKAGE"), LEAF("q"), LEAF("r")), "PACKAGE"), ((LEAF("q"), pk("PK"), LEAF("r")), "q"), ((pk("B"), _R("Any", LEAF("x"), LEAF("y"), id="C"), LEAF("a")), "B"),
                        ((LEAF("a"), LEAF("b"), LEAF("c")), "b"), ((LEAF("n", 0, 3), LEAF("b")), "n")):
            for dobj in (True, False):
                g = dict(_cc(grp, *opts, id="X"), d=d, dobj=dobj)
                out.append({"recipe": _cc("Cfg", g, _R("Any", LEAF("u"), LEAF("w"), id="J"), id="cfg"), "src": "handmade"})
                out.append({"recipe": g, "src": "handmade"})
    ctx.region("default_given_as_object", len(out))
    return out

def var_prefix_cases(ctx):
    """explicit ids that merely LOOK generated (they start with the generator's prefix): explicitness is not a matter of spelling"""
    a, b, c = LEAF("a"), LEAF("b"), LEAF("c")
    out = []
    for i in ("VARIANTS", "VAR_2024", "VAR", "VARa"):
        out += [_cc("Cfg", dict(_cc("ccAny", a, b, c, id="X"), d="a"), id=i), _cc("Cfg", _R("Any", a, b, id=i), id="cfg"), _R("All", _R("Any", a, b, id=i), c, id="A"),
                _R("Imply", _R("All", a, b, id=i), c), _cc("Cfg", _R("Xor", a, b, c, id=i)), dict(_cc("ccXor", a, b, c, id=i), d="b")]
    ctx.region("explicit_id_with_generator_prefix", len(out))
    return [{"recipe": r, "src": "handmade"} for r in out]

def run_c17(ctx):
    cases = serial_cases(ctx, ["C17"], small=True)
    # configurators over 16-bit integer items: big-M coefficients beyond 16 bits must survive the packing
    W = lambda i, lo, hi: LEAF(i, lo, hi)
    for k, (l1, l2) in enumerate([(W("w", -32768, 32767), W("y", 0, 20000)), (W("w", 0, 30000), W("y", -20000, 5)), (W("w", -32768, 32767), LEAF("a"))]):
        cases.append({"recipe": _cc("Cfg", _R("AtLeast", l1, l2, LEAF("b"), id="R", v=3 + k, s=1), dict(_cc("ccAny", LEAF("a"), LEAF("b"), LEAF("c"), id="X"), d="a"), id="cfg"),
                      "src": "handmade", "wide": True})
    # twins: the same ids, bounds and thresholds in every node, different classes / defaults / priority tags
    x, y, z = LEAF("x"), LEAF("y"), LEAF("z")
    tw = [(_cc("Cfg", dict(_cc("ccAny", x, y, z, id="A"), d="z"), id="main"), _cc("Cfg", _R("Any", z, _R("Any", x, y), id="A"), id="main")),
          (_cc("Cfg", dict(_cc("ccXor", x, y, id="A"), d="x"), id="main"), _cc("Cfg", _R("Xor", x, y, id="A"), id="main")),
          (_R("All", _R("AtLeast", x, y, v=1, s=1, id="B"), z, id="T"), _R("All", _R("Any", x, y, id="B"), z, id="T")),
          (_R("All", _R("AtLeast", x, y, z, v=3, s=1, id="B"), id="T"), _R("All", _R("All", x, y, z, id="B"), id="T"))]
    for r1, r2 in tw:
        cases.append({"recipe": r1, "twins": [r2], "src": "handmade"}); cases.append({"recipe": r2, "twins": [r1], "src": "handmade"})
    ctx.region("twin_packed_first", 2 * len(tw))
    ctx.pmap(drivers.drv_b64, _stamp(cases, "drv_b64"))
    # unpacking in another interpreter (different hash seed)
    pool = [c["recipe"] for c in cases if c.get("src") == "handmade" and not c.get("wide")] + [c["recipe"] for c in cases if c.get("src") == "random"][:150 if ctx.tier == "quick" else 1500]
    xp = [{"recipes": pool[i:i + 40], "other_seed": 1 + (i // 40) % 3} for i in range(0, len(pool), 40)]
    ctx.pmap(drivers.drv_b64_xproc, _stamp(xp, "drv_b64_xproc"))
    ctx.region("unpacked_in_another_interpreter", len(pool))
    # the caller goes on with the unpacked object: TLC enumerates call histories of the API machine in which handles are re-bound to
    # what from_b64(to_b64(.)) returned; every later answer is the answer of a freshly built model (run_histories validates all events)
    cat = api_catalog()
    pairs = [(cat["CfgD"], cat["M1"]), (cat["Cfg3"], cat["CfgP"]), (cat["M3"], cat["G1"])]
    states = api_histories(ctx, "API_reload", pairs, ["reload_b64", "select", "cfg_poly", "to_json", "evaluate_all", "negate", "add"], 3, RULES()[:2],
                            dictvals=())          # dictionaries over leaves only: the known overwrite (D2, a C09 finding) is not triggered here
    hc = [c for c in history_cases(ctx, states, [p for pr in pairs for p in pr]) if any(x["op"] == "reload_b64" for x in c["calls"])]
    if len(hc) > (600 if ctx.tier == "quick" else 6000):
        ctx.notes.append("a seeded sample of the %d enumerated reload histories is replayed" % len(hc))
        hc = ctx.rng.sample(hc, 600 if ctx.tier == "quick" else 6000)
    ctx.region("history_continues_with_unpacked_object", len(hc))
    run_histories(ctx, hc)

# ------------------------------------------------------------------------------------------- polyhedra: C11, C12, C19, C20
def S(x): return {"$set": [list(i) if isinstance(i, tuple) else i for i in x]}

def poly_universe(ctx, invariants, name, nr=2, nc=2, coefs=range(-2, 3), bs=range(-1, 3), bounds=((0, 1), (-1, 2)), properties=()):
    u = {"NR": nr, "NC": nc, "Coefs": S(coefs), "Bs": S(bs), "BoundOpts": S(bounds)}
    r = ctx.model_check("PuanPoly", u, invariants=invariants, properties=properties, dump=True, name=name,
                        spec="FairSpec" if properties else "Spec")
    cases, seen = [], set()
    for st in tlc.dump_states(r["dump_path"], only={"rows0", "cols0", "pc"}):
        if st["pc"] != "test": continue
        key = json.dumps([st["rows0"], st["cols0"]])
        if key in seen: continue
        seen.add(key)
        cases.append({"rows": [[x["b"]] + list(x["a"]) for x in st["rows0"]], "bounds": [[c["lo"], c["hi"]] for c in st["cols0"]],
                      "src": "spec", "k": len(cases)})
    os.remove(r["dump_path"])
    cases.sort(key=lambda c: json.dumps([c["rows"], c["bounds"]]))
    for k, c in enumerate(cases): c["k"] = k
    return cases

def _P(rows, cols, names="xyzt"):
    return {"rows": [{"b": r[0], "a": list(r[1:])} for r in rows], "cols": [{"id": names[j] if isinstance(c, tuple) else c[0], "lo": (c if isinstance(c, tuple) else c[1:])[0],
            "hi": (c if isinstance(c, tuple) else c[1:])[1]} for j, c in enumerate(cols)], "index": ["r%d" % (i + 1) for i in range(len(rows))]}

POLY_CATALOG = [
    _P([[1, 1, 1], [1, 1, 0]], [(0, 1), (0, 1)]),                                  # x forced to 1, first row then redundant
    _P([[1, -1, 2], [-2, 0, -1]], [(0, 1), (-1, 2)]),                              # integer column, rounding in the tightening
    _P([[3, 1, 1, 1], [-2, -1, -1, 0]], [(0, 1), (0, 1), (0, 1)]),                 # everything forced, second row redundant
    _P([[4, 1, 1], [-3, -1, 0]], [(0, 3), (0, 1)]),                                # forces the upper ends
    _P([[2, 1, 0], [0, 1, 1]], [(0, 1), (0, 1)]),                                  # infeasible
    _P([[-1, -2, -1, 0], [0, 0, 1, 1]], [(0, 1), (0, 1), (-1, 1)]),                # nothing forced at once
    _P([[0, 1, 1, -2], [-1, -1, -1, 2], [1, 0, 0, 1]], [(0, 1), (0, 1), (0, 1)]),  # big-M shaped rows of a conjunction, its variable asserted
    _P([[0, 2, -3], [-4, -2, 1]], [(-1, 2), (0, 2)]),                              # non-unit coefficients, negative lower bound
    _P([[1, 1, 1], [1, 1, 1], [0, 1, -1], [2, 1, 1]], [(0, 1), (0, 1)]),           # the same row twice
]
POLY_CALLS = ["A", "b", "to_linalg", "column_bounds", "row_bounds", "ncomb", "tighten", "red_rows", "red_cols", "rr_and_c", "sat", "sep", "rowsep", "idx",
              "copy", "rewrap", "neglectable", "reduce_cols", "reduce_rows", "reduce_both", "edit", "widen", "reduce_cols_q", "reduce_rows_q", "reduce_both_q", "assign_lo", "drop_none"]

def poly_histories(ctx, maxlen=3, sample=None):
    """histories of public calls on one polyhedron object: the machine PuanPolyAPI is model-checked (reductions compose, labels kept,
    queries pure) and its histories are replayed into the library"""
    u = {"Catalog": {"$set": POLY_CATALOG}, "PCalls": set(POLY_CALLS), "PMaxLen": maxlen}
    r = ctx.model_check("PuanPolyAPI", u, invariants=["Composed", "LabelsKept"], properties=["QueriesPure"], dump=True, name="PolyAPI_len%d" % maxlen)
    cases, seen = [], set()
    for st in tlc.dump_states(r["dump_path"], only={"start", "hist"}):
        if len(st["hist"]) != maxlen: continue
        cases.append({"calls": list(st["hist"]), "init": st["start"], "src": "spec"})
    os.remove(r["dump_path"])
    cases.sort(key=lambda c: json.dumps([c["init"], c["calls"]], sort_keys=True))
    for k, c in enumerate(cases): c["k"] = k
    if sample and len(cases) > sample:
        # every ordered pair of consecutive calls stays present; the rest is a seeded sample
        groups = {}
        for c in cases:
            for a_, b_ in zip(c["calls"], c["calls"][1:]): groups.setdefault((a_, b_), []).append(c)
        picked = {}
        for key in sorted(groups):
            for c in ctx.rng.sample(groups[key], min(3, len(groups[key]))): picked[c["k"]] = c
        rest = [c for c in cases if c["k"] not in picked]
        cases = list(picked.values()) + ctx.rng.sample(rest, max(0, min(len(rest), sample - len(picked))))
        ctx.notes.append("a stratified seeded sample of %d of the enumerated polyhedron histories is replayed (every ordered pair of calls present)" % len(cases))
    ctx.region("polyhedron_object_histories", len(cases))
    return cases

def random_polys(ctx, n, required=("rows>=3", "cols>=3", "nonunit_coef", "zero_coef", "neg_lower", "degenerate_bound", "infeasible_hint", "big_coef")):
    rng = ctx.rng
    out = []
    for k in range(n):
        nr, nc = rng.randint(1, 4), rng.randint(1, 4)
        bopts = [(0, 1), (0, 1), (-1, 2), (-3, 0), (2, 5), (1, 1), (0, 3), (-2, -1)]
        while True:
            bounds = [rng.choice(bopts) for _ in range(nc)]
            size = 1
            for lo, hi in bounds: size *= hi - lo + 1
            if size <= 600: break
        rows = [[rng.randint(-4, 4)] + [rng.choice([-3, -2, -1, -1, 0, 0, 1, 1, 2, 3]) for _ in range(nc)] for _ in range(nr)]
        if k % 9 == 4 and nr >= 2:
            rows[-1] = list(rows[0]); ctx.region("repeated_row")          # the same inequality twice
        if k % 3 == 0:
            # big-M sized coefficients, right-hand sides that divide exactly or almost (rounding in the tightening)
            ctx.region("big_coef")
            for r in rows:
                j = rng.randrange(nc)
                a = rng.choice([-1, 1]) * rng.randint(5, 200)
                r[1 + j] = a
                r[0] = a * rng.randint(-1, 2) + rng.choice([0, 0, 1, -1])
        dtype = None
        if k % 6 == 3:
            # a narrow dtype: the matrix entries fit, but moving a forced column into b does not (200 * 300 > 32767)
            dtype = rng.choice(["int16", "int32"])
            j = rng.randrange(nc)
            v = rng.randint(150, 300)
            bounds[j] = (v, v)
            for r in rows:
                r[1 + j] = rng.choice([-1, 1]) * rng.randint(120, 200)
            ctx.region("narrow_dtype")
        if k % 6 == 5:
            # int8 storage, one integer column with a range of some tens and a non-unit coefficient: coefficient * bound leaves int8
            dtype = "int8"
            j = rng.randrange(nc)
            lo = rng.randint(-5, 5)
            bounds[j] = (lo, lo + rng.randint(25, 45))
            for r in rows:
                for i in range(len(r)): r[i] = max(-100, min(100, r[i]))
                r[1 + j] = rng.choice([-1, 1]) * rng.randint(3, 6)
                r[0] = max(-120, min(120, r[1 + j] * rng.randint(lo, lo + 45) + rng.randint(-3, 3)))
            ctx.region("narrow_dtype_int8")
        if nr >= 3: ctx.region("rows>=3")
        if nc >= 3: ctx.region("cols>=3")
        if any(abs(x) > 1 for r in rows for x in r[1:]): ctx.region("nonunit_coef")
        if any(x == 0 for r in rows for x in r[1:]): ctx.region("zero_coef")
        if any(lo < 0 for lo, hi in bounds): ctx.region("neg_lower")
        if any(lo == hi for lo, hi in bounds): ctx.region("degenerate_bound")
        if any(r[0] > sum(max(a * lo, a * hi) for a, (lo, hi) in zip(r[1:], bounds)) for r in rows): ctx.region("infeasible_hint")
        out.append({"rows": rows, "bounds": [list(b) for b in bounds], "src": "random", "k": k,
                    "ids": rng.sample(["zc", "ab", "mx", "c0", "Q", "kk", "b1"], nc) if k % 2 else ["c%d" % j for j in range(nc)],
                    "index": ["r%d" % i for i in range(nr)], "dtype": dtype})
    missing = [f for f in required if not ctx.regions.get(f)]
    if missing: raise Machinery("random polyhedra did not reach regions %s" % missing)
    return out

def narrow_storage_family(ctx):
    """polyhedra stored as int8 / int16 whose entries fit, while coefficient x bound does not: rows that are NOT implied by the
    box (and would look implied, or infeasible, after a wrap-around), alone and next to a second column"""
    out, k = [], 0
    for dt, his, coefs in (("int8", (30, 35, 40, 45, 60), (-3, -4, -5, -6, 3, 5)), ("int16", (300, 3000, 9000), (-120, -30, 150, -7))):
        for hi in his:
            for a in coefs:
                if abs(a * hi) <= (127 if dt == "int8" else 32767): continue
                for frac in (2, 3):
                    b = (a * hi) // frac
                    if abs(b) > (120 if dt == "int8" else 32000): continue
                    out.append({"rows": [[b, a]], "bounds": [[0, hi]], "src": "family", "k": k, "dtype": dt}); k += 1
                    out.append({"rows": [[b, a, 1], [0, 0, 1]], "bounds": [[0, hi], [0, 1]], "src": "family", "k": k, "dtype": dt}); k += 1
                    out.append({"rows": [[b, a, -1], [-1, 0, -1]], "bounds": [[-hi // 2, hi // 2], [0, 1]], "src": "family", "k": k, "dtype": dt}); k += 1
    ctx.region("narrow_storage_family", len(out))
    return out

def run_c11(ctx):
    q = ctx.tier == "quick"
    if not q: ctx.lemma("RowImplied", cinit="ConstInit")
    cases = poly_universe(ctx, ["ProjInv", "RowsImplied", "ColsForced", "FinalReduce"], "Poly_C11",
                          bs=range(-1, 2) if q else range(-2, 3), bounds=((0, 1), (-1, 2)) if q else ((0, 1), (-1, 2), (1, 1)))
    if not q:
        cases += poly_universe(ctx, ["ProjInv", "RowsImplied", "ColsForced", "FinalReduce"], "Poly_C11_3col", nr=1, nc=3, coefs=range(-2, 3), bs=range(-2, 3))
    # liveness of the loop (no state constraint): a smaller universe, fairness on the loop actions
    ctx.model_check("PuanPoly", {"NR": 2, "NC": 2, "Coefs": S(range(-1, 2) if q else range(-2, 3)), "Bs": S(range(-1, 2)), "BoundOpts": S([(0, 1), (-1, 1)])},
                    properties=["Terminates"], spec="FairSpec", name="Poly_C11_live")
    cases += random_polys(ctx, 1500 if q else 20000)
    cases += narrow_storage_family(ctx)
    ctx.pmap(drivers.drv_poly_reduce, _stamp(cases, "drv_poly_reduce"))
    ph = poly_histories(ctx, 2) + poly_histories(ctx, 3, sample=1500 if q else 20000)
    ctx.pmap(drivers.drv_poly_history, _stamp(ph, "drv_poly_history"))
    ctx.validate()

def run_c12(ctx):
    q = ctx.tier == "quick"
    if not q: ctx.lemma("TightenSound", cinit="ConstInit")
    if not q: ctx.lemma("RowImplied", cinit="ConstInit")
    cases = poly_universe(ctx, ["TightSound", "RowBoundsExact"], "Poly_C12",
                          bs=range(-1, 2) if q else range(-2, 3), bounds=((0, 1), (-1, 2)) if q else ((0, 1), (-1, 2), (1, 1)))
    if not q:
        cases += poly_universe(ctx, ["TightSound", "RowBoundsExact"], "Poly_C12_3col", nr=1, nc=3, coefs=range(-3, 4), bs=range(-2, 3))
    cases += random_polys(ctx, 1500 if q else 20000)
    cases += narrow_storage_family(ctx)
    # variable bounds taken from a narrow numpy table (int8 / int16) with wide ranges: counts and candidates exceed that type
    rng = ctx.rng
    for k in range(100 if q else 1000):
        bd = rng.choice(["int8", "int16"])
        nc = rng.randint(1, 3) if bd == "int8" else rng.randint(1, 2)        # the counts stay below TLC's 2^31
        w = 100 if bd == "int8" else 20000
        bounds = [[-rng.randint(1, w), rng.randint(1, w)] for _ in range(nc)]
        rows = [[rng.randint(-50, 50)] + [rng.choice([-2, -1, 0, 1, 1, 3]) for _ in range(nc)] for _ in range(rng.randint(1, 3))]
        cases.append({"rows": rows, "bounds": bounds, "src": "random", "k": k, "bounds_dtype": bd, "ids": ["w%d" % j for j in range(nc)]})
        ctx.region("narrow_bounds_table")
    # columns declared with the library's default integer range (-32768..32767) or starting exactly at its minimum
    for k_, (lo, hi) in enumerate(((-32768, 32767), (-32768, 5), (-32768, -32760), (-32767, 3), (0, 32767))):
        for rows_ in ([[0, 1]], [[-32768, -1]], [[5, 1]], [[32768, -1]], [[-3, 1], [1, -1]]):
            cases.append({"rows": rows_, "bounds": [[lo, hi]], "src": "family", "k": k_})
            cases.append({"rows": [r + [1] for r in rows_], "bounds": [[lo, hi], [0, 1]], "src": "family", "k": k_})
    ctx.region("default_integer_range")
    # every coefficient magnitude up to 200 (both signs) with right-hand sides that divide exactly or miss by one: the rounding of the
    # tightening must be exact integer arithmetic (a reciprocal in floating point is off by one for 49, 98, 103, 107, ...)
    kk = 0
    for a in range(2, 201 if q else 1001):
        for sgn in (1, -1):
            m = 1 + (a % 4)
            for off in ((0,) if q and a % 3 else (0, 1, -1)):
                cases.append({"rows": [[sgn * a * m + off, sgn * a]], "bounds": [[0, 6]], "src": "family", "k": kk}); kk += 1
            if a % 5 == 0:
                cases.append({"rows": [[sgn * a * m, sgn * a, 1], [0, 1, -1]], "bounds": [[0, 6], [0, 1]], "src": "family", "k": kk}); kk += 1
    ctx.region("exact_division_family", kk)
    for k in range(40 if q else 400):
        nc = rng.randint(1, 4)
        rows = [[rng.randint(-2, 3)] + [rng.choice([-2, -1, 0, 1, 1, 2]) for _ in range(nc)] for _ in range(rng.randint(1, 3))]
        cases.append({"rows": rows, "bounds": [[0, 1]] * nc, "src": "random", "k": k, "default_vars": True})
    ctx.region("default_variables")
    ctx.pmap(drivers.drv_tighten, _stamp(cases, "drv_tighten"))
    ph = poly_histories(ctx, 2) + ([] if ctx.tier == "quick" else poly_histories(ctx, 3, sample=20000))
    ctx.pmap(drivers.drv_poly_history, _stamp(ph, "drv_poly_history"))
    ctx.validate()

def run_c19(ctx):
    q = ctx.tier == "quick"
    import itertools
    base = poly_universe(ctx, [], "Poly_C19", coefs=range(-2, 3), bs=range(-1, 2) if q else range(-2, 3), bounds=((0, 1),))
    grid = [list(p) for p in itertools.product(range(-1, 3), repeat=2)]     # also points outside the declared bounds
    cases = []
    for k, c in enumerate(base):
        rng = ctx.rng
        pts = [rng.choice(grid)]                                            # a vector
        pts.append([rng.choice(grid) for _ in range(rng.randint(1, 3))])    # a matrix of points
        pts.append([[rng.choice(grid) for _ in range(rng.randint(1, 3))] for _ in range(rng.randint(1, 3))])
        m = len(pts[-1][0])
        pts[-1] = [g[:m] + [g[-1]] * (m - len(g)) for g in pts[-1]]          # rectangular stack
        cases.append(dict(c, points=pts))
    # every grid point as a vector / every pair as a matrix for a few matrices
    for c in base[:: max(1, len(base) // 60)]:
        cases.append(dict(c, points=[p for p in grid] + [[p1, p2] for p1 in grid[::3] for p2 in grid[::5]] + [[[p1, p2], [p2, p1], [p1, p1]] for p1 in grid[::4] for p2 in grid[1::6]]))
    rng = ctx.rng
    for k in range(150 if q else 1500):
        nc = rng.randint(1, 3)
        rows = [[rng.randint(-100, 100)] + [rng.choice([-3, -2, 2, 3, 1]) for _ in range(nc)] for _ in range(rng.randint(1, 3))]
        pt = lambda: [rng.randint(-60, 60) for _ in range(nc)]
        cases.append({"rows": rows, "bounds": [[0, 1]] * nc, "src": "random", "k": k, "dtype": "int8",
                      "points": [pt(), [pt() for _ in range(2)], [[pt(), pt()], [pt(), pt()]]]})
        ctx.region("int8_polyhedron")
        if k % 3 == 0:
            # ... and points whose coordinates do not fit the polyhedron's storage type (they are given as int64 / int32 arrays)
            wp = lambda: [rng.choice([200, -200, 130, 300, -129, 1000]) if rng.random() < 0.6 else rng.randint(-3, 3) for _ in range(nc)]
            cases.append({"rows": rows, "bounds": [[0, 1]] * nc, "src": "random", "k": k, "dtype": "int8",
                          "points": [wp(), [wp() for _ in range(2)], [[wp(), wp()], [wp(), wp()]]]})
            ctx.region("points_wider_than_storage")
    for c in random_polys(ctx, 300 if q else 4000, required=("rows>=3", "cols>=3")):
        nc = len(c["bounds"]); rng = ctx.rng
        pt = lambda: [rng.randint(-2, 3) for _ in range(nc)]
        c["points"] = [pt(), [pt() for _ in range(rng.randint(1, 4))], [[pt() for _ in range(3)] for _ in range(rng.randint(1, 3))]]
        ctx.region("points>=3"); ctx.region("3d")
        cases.append(c)
    ctx.pmap(drivers.drv_classify, _stamp(cases, "drv_classify"))
    ph = poly_histories(ctx, 2) + ([] if ctx.tier == "quick" else poly_histories(ctx, 3, sample=20000))
    ctx.pmap(drivers.drv_poly_history, _stamp(ph, "drv_poly_history"))
    ctx.validate()

def run_c20(ctx):
    q = ctx.tier == "quick"
    u = {"IdPool": {"a", "n1", "s1", "uml"} if not q else {"n1", "s1", "uml"}, "BoundOpts": S([(0, 1), (1, 1), (-3, 4)] if q else [(0, 1), (1, 1), (-3, 4), (2, 2)]),
         "MaxVars": 2 if q else 3, "Vals": S([0, 5] if q else [0, 5, -2]), "Unknown": "zz"}
    r = ctx.model_check("PuanBridge", u, invariants=["C20"], dump=True, name="Bridge_C20")
    cases = []
    for st in tlc.dump_states(r["dump_path"], only={"vars", "d", "lst", "phase"}):
        if st["phase"] != "done": continue
        cases.append({"vars": st["vars"], "dict": st["d"] if isinstance(st["d"], dict) else {}, "list": st["lst"], "src": "spec",
                      "bits": [len(cases) % 2, 1, (len(cases) // 2) % 2]})
    os.remove(r["dump_path"])
    cases.sort(key=lambda c: json.dumps([c["vars"], c["dict"], c["list"]], sort_keys=True))
    for k, c in enumerate(cases): c["bits"] = [k % 2, 1, (k // 2) % 2]
    rng = ctx.rng
    if len(cases) > 40000:
        # every enumerated state was model-checked by TLC; the replay into the library takes a seeded sample (each case yields about
        # eight events and the harness keeps all events in memory: the full thorough universe needed more than 24 GB)
        ctx.notes.append("a seeded sample of 40000 of the %d enumerated bridge states is replayed into the library" % len(cases))
        cases = [cases[i] for i in sorted(rng.sample(range(len(cases)), 40000))]
    for k in range(300 if q else 3000):
        ids = rng.sample(["a", "b", "c", "n7", "uml", "fz", "A", "zq", "n1", "s1", "nul", "tp", "tq"], rng.randint(1, 5))
        if "n1" in ids and "s1" in ids: ctx.region("int_and_str_form")
        vs = [{"id": i, "lo": b[0], "hi": b[1]} for i, b in ((i, rng.choice([(0, 1), (1, 1), (-3, 4), (2, 2), (0, 0), (-5, -2)])) for i in ids)]
        keys = rng.sample(ids + ["zz"], rng.randint(0, len(ids)))
        lst = [rng.choice(ids + ["zz"]) for _ in range(rng.randint(0, 4))]
        if len(lst) != len(set(lst)): ctx.region("duplicate_in_list")
        if any(v == 0 for v in [0]) : pass
        d = {i: rng.choice([0, 0, 5, -2, 1]) for i in keys}
        if any(v == 0 for v in d.values()): ctx.region("explicit_zero")
        if len(ids) >= 4: ctx.region("vars>=4")
        cases.append({"vars": vs, "dict": d, "list": lst, "bits": [rng.choice([0, 1, 1, 0, 2, -1]) for _ in range(3)], "src": "random"})
    ctx.pmap(drivers.drv_bridge, _stamp(cases, "drv_bridge"))
    ph = poly_histories(ctx, 2) + ([] if ctx.tier == "quick" else poly_histories(ctx, 3, sample=20000))
    ctx.pmap(drivers.drv_poly_history, _stamp(ph, "drv_poly_history"))
    ctx.validate()

# ------------------------------------------------------------------------------------------- C13
def run_c13(ctx):
    q = ctx.tier == "quick"
    if not q: ctx.lemma("ShadowLex", init_bad="InitBad")
    inv = ["ShadowAlg", "PrioDense", "RanksAll", "Exact"]
    cases = []
    for name, u in (("Prio_2x3", {"NRows": 2, "NColsC": 3, "Vals": S([-2, -1, 0, 1] if q else range(-2, 3))}),
                    ("Prio_3x2", {"NRows": 3, "NColsC": 2, "Vals": S([-1, 0, 1, 2] if q else [-2, -1, 0, 1, 2])})):
        r = ctx.model_check("PuanPrio", u, invariants=inv, dump=True, name=name)
        xs = [x for x in ctx.dump_values(r, "X") if x]
        for k, x in enumerate(xs):
            cases.append({"x": x, "kind": "2d0", "src": "spec"})
            cases.append({"x": x, "kind": "2d1", "src": "spec"})
            if len(x) == 1: cases.append({"x": x[0], "kind": "flat", "src": "spec"})
            if k % 7 == 0 and k + 2 < len(xs) and len(xs[k + 1]) == len(x) and len(xs[k + 2]) == len(x):
                cases.append({"x": [x, xs[k + 1], xs[k + 2]], "kind": "3d0", "src": "spec"})
    rng = ctx.rng
    def arr(nr, nc, lo=-5, hi=5, pz=0.4):
        return [[0 if rng.random() < pz else rng.randint(lo, hi) for _ in range(nc)] for _ in range(nr)]
    for k in range(1500 if q else 20000):
        nr, nc = rng.randint(1, 5), rng.randint(1, 6)
        x = arr(nr, nc, pz=rng.choice([0.2, 0.5, 0.7]))
        if nr >= 3 and any(all(v == 0 for v in row) for row in x[1:-1]): ctx.region("empty_middle_row")
        if any(sum(row) == 0 and any(row) for row in x): ctx.region("cancelling_row")
        if nr >= 3: ctx.region("rows>=3")
        kind = rng.choice(["2d0", "2d1", "2d0", "flat", "3d0"])
        if kind == "flat":
            cases.append({"x": x[0] if k % 2 else x, "kind": "flat", "src": "random", "layout": ["C", "T", "F"][(k // 2) % 3]})
            if (k // 2) % 3: ctx.region("non_C_layout")
        elif kind == "3d0":
            ctx.region("3d")
            cases.append({"x": [x] + [arr(nr, nc) for _ in range(rng.randint(1, 2))], "kind": "3d0", "src": "random"})
        else:
            cases.append({"x": x, "kind": kind, "src": "random", "layout": ["C", "C", "T", "F"][k % 4]})
    # priorities beyond 2^53 that differ by less than a float ulp (the results must still fit in 64 bits)
    for k in range(60 if q else 600):
        nr, nc = rng.randint(1, 3), rng.randint(2, 5)
        base = rng.choice([10 ** 18, 2 ** 53, 2 ** 62 - 10, 10 ** 15])
        x = [[0 if rng.random() < 0.3 else rng.choice([-1, 1]) * (base + rng.randint(0, 3)) for _ in range(nc)] for _ in range(nr)]
        if not any(v for row in x for v in row): continue
        ctx.region("wide_values")
        cases.append({"x": x, "kind": rng.choice(["2d0", "2d1"]), "src": "random"})
    # vectors with the axis named explicitly (repeated priorities below a higher one); arrays of a narrow integer type that hold that
    # type's least value as a priority
    for k in range(40 if q else 400):
        n = rng.randint(2, 7)
        v = [rng.choice([0, 1, 1, -1, 2, -2, 3, 5]) for _ in range(n)]
        if len(set(abs(i) for i in v if i)) >= 2 and any(v.count(i) > 1 for i in v if i): ctx.region("vector_with_axis_and_repeats")
        cases.append({"x": v, "kind": "flat0", "src": "random"})
    for dtn, lo in (("int8", -128), ("int16", -32768), ("int32", -2147483648)):
        for x in ([[lo, 1, 2]], [[lo, 1, 2], [0, 5, lo]], [[1, lo, 0], [2, 0, 0], [0, 0, -3]], [[lo + 1, lo, -lo - 1]]):
            cases.append({"x": x, "kind": "2d0", "src": "handmade", "dtype": dtn}); cases.append({"x": x, "kind": "2d1", "src": "handmade", "dtype": dtn})
            cases.append({"x": x[0], "kind": "flat", "src": "handmade", "dtype": dtn})
    ctx.region("narrow_type_minimum_as_priority")
    for f in ("empty_middle_row", "cancelling_row", "rows>=3", "3d", "wide_values", "vector_with_axis_and_repeats"):
        if not ctx.regions.get(f): raise Machinery("random arrays did not reach region " + f)
    ctx.pmap(drivers.drv_compress, _stamp(cases, "drv_compress"))
    if not q: repo_test_events(ctx, ['compress'])
    ctx.validate()

# ------------------------------------------------------------------------------------------- C14 / C15
CFG_RULES = ["ccAny", "ccXor", "All", "Any", "AtMost", "Imply"]
def prios_lists(leaf_ids, rng, n=4, comp_ids=()):
    ids = sorted(leaf_ids)
    out = [[{}]]
    for c in list(comp_ids)[:2]:
        out.append([{c: 2}] if not ids else [{c: 2, ids[0]: -1}, {c: -1}])           # a priority on a "package" (sub-proposition id)
    if ids:
        a = ids[0]; b = ids[-1]; c = ids[len(ids) // 2]
        out += [[{a: 1}], [{b: -1}], [{a: 1, b: 2}, {c: -1}], [{a: -2, b: 1}], [{a: 1, b: 1, c: 1}], [{a: 2, c: -3}, {}, {b: 1}]]
        # an id that is no column of the model (ignored, by the statement) ahead of ids that are, in the dictionary's order
        out += [[{"ghost_id": 1, a: 3, b: 2}], [{"ghost_id": -1, a: 1}, {b: 2, "ghost_id": 5, c: -1}]]
    for _ in range(n):
        k = rng.randint(1, min(3, len(ids))) if ids else 0
        out.append([{i: rng.choice([-3, -2, -1, 1, 2, 3]) for i in rng.sample(ids, k)} for _ in range(rng.randint(1, 3))])
    return out

def cfg_cases(ctx, inv, quick_prios=3):
    q = ctx.tier == "quick"
    cases = []
    u = universe(ctx.tier, ["ccAny", "ccXor", "Cfg"], leaves=[LEAF("a"), LEAF("b"), LEAF("c")] + ([] if q else [LEAF("d")]), values=[1], signs=(0,),
                 ids=("gen", "exp") if not q else ("exp",), comp=2, kids=3)
    r = ctx.model_check("PuanBuild", u, invariants=inv, dump=True, name="Build_cfg", timeout=3000)
    cs = [c for c in spec_cases(ctx, r) if c["recipe"]["c"] == "Cfg"]
    if len(cs) > 4000:
        ctx.notes.append("a seeded sample of 4000 of the %d enumerated configurators is replayed into the library" % len(cs))
        cs = ctx.rng.sample(cs, 4000)
    for c in cs:
        c["prios_list"] = prios_lists(B_leaves(c["recipe"]), ctx.rng, n=1, comp_ids=sorted(_explicit(c["recipe"]) - {c["recipe"]["id"]}))
    cases += cs
    # the same definition under two classes (the "at least one" half of an Xor and a separate Any) next to a defaulted Any
    for x, y, z in (("a", "b", "c"), ("p", "q", "r"), ("u", "w", "v"), ("d", "e", "f")):
        rr = _cc("Cfg", _R("Xor", LEAF(x), LEAF(y)), _R("Imply", _R("All", LEAF("k")), _R("Any", LEAF(x), LEAF(y))),
                 _cc("ccAny", LEAF(x), LEAF(z), LEAF("m"), d=z))
        cases.append({"recipe": rr, "src": "handmade", "prios_list": [[{}], [{"k": 1}], [{"k": 1, "m": -2}, {"m": 1, "k": 1}]]})
    # integer items with a non-zero lower bound (a request that does not mention them must give them weight 0)
    for lo, hi in ((1, 3), (-2, 1), (2, 2)):
        rr = _cc("Cfg", _R("AtLeast", LEAF("n", lo, hi), LEAF("b"), id="R", v=2, s=1), _cc("ccAny", LEAF("a"), LEAF("b"), LEAF("c"), d="a", id="X"), id="cfg")
        cases.append({"recipe": rr, "src": "handmade", "prios_list": [[{}], [{"b": 1}], [{"c": 2, "n": 1}, {"a": -1}], [{"X": 1}]]})
    # the default named twice among the options; defaults that sort before generated ids
    for grp in ("ccAny", "ccXor"):
        rr = _cc("Cfg", dict(_cc(grp, LEAF("a"), LEAF("b"), LEAF("c"), LEAF("c"), id="X"), d="c"), _R("Any", LEAF("x"), LEAF("y"), id="J"), id="cfg")
        cases.append({"recipe": rr, "src": "handmade", "prios_list": [[{}], [{"x": 1}], [{"a": 1}, {"c": -1}]]})
        rr = _cc("Cfg", dict(_cc(grp, LEAF("A"), LEAF("B"), LEAF("c"), id="X"), d="A"), dict(_cc(grp, LEAF("Q"), LEAF("r"), LEAF("s")), d="Q"), id="cfg")
        cases.append({"recipe": rr, "src": "handmade", "prios_list": [[{}], [{"c": 1}], [{"B": 1}, {"Q": -1}]]})
    # several defaults, the first of them not the alphabetically smallest
    for grp in ("ccAny", "ccXor"):
        for d1, d2_ in (("c", "a"), ("b", "a"), ("c", "b")):
            rr = _cc("Cfg", dict(_cc(grp, LEAF("a"), LEAF("b"), LEAF("c"), id="X"), d=d1, d2=d2_), _R("Any", LEAF("x"), LEAF("y"), id="J"), id="cfg")
            cases.append({"recipe": rr, "src": "handmade", "prios_list": [[{}], [{"x": 1}], [{"a": 1}, {"c": -1}]]})
            cases.append({"recipe": rr, "src": "handmade", "via": "json", "prios_list": [[{}], [{"b": 1}]]})
    # the only other alternative of a defaulted group is a sub-proposition that another rule uses as well
    for g in (_R("All", LEAF("p"), LEAF("q"), LEAF("r"), id="G"), _R("Any", LEAF("p"), LEAF("q"), id="G"), _R("All", LEAF("p"), LEAF("q"))):
        for grp in ("ccAny", "ccXor"):
            rr = _cc("Cfg", dict(_cc(grp, LEAF("a"), g, id="X"), d="a"), _R("Imply", LEAF("x"), g, id="I"), _R("Any", LEAF("x"), LEAF("y"), id="J"), id="cfg")
            cases.append({"recipe": rr, "src": "handmade", "prios_list": [[{}], [{"x": 1}], [{"y": 1, "x": -1}], [{"a": -1}, {"p": 1}]]})
    # defaulted groups below a plain rule (All / Any / Imply), built directly and loaded from their JSON document
    for top in ("All", "Any"):
        for grp, dflt in (("ccAny", "a"), ("ccXor", "b"), ("ccAny", "c")):
            rr = _cc("Cfg", _R(top, dict(_cc(grp, LEAF("a"), LEAF("b"), LEAF("c")), d=dflt), LEAF("x"), id="R"), id="cfg")
            rr2 = _cc("Cfg", _R("Imply", LEAF("x"), _R(top, dict(_cc(grp, LEAF("a"), LEAF("b"), LEAF("c"), id="G"), d=dflt), LEAF("y"))), id="cfg")
            for r_, via in ((rr, "ctor"), (rr, "json"), (rr2, "ctor"), (rr2, "json")):
                cases.append({"recipe": r_, "src": "handmade", "via": via, "prios_list": [[{}], [{"x": 1}], [{"c": 1, "x": 1}, {"a": -1}]]})
    g = gen.Gen(ctx.rng, classes=CFG_RULES, ints=False, max_kids=3, depth=2, documented=True, max_box=64)
    n = 0
    while n < (120 if q else 1500):
        rules = [_rename(g.recipe(), "R%d" % j) for j in range(ctx.rng.randint(1, 3))]
        rr = {"c": "Cfg", "a": rules, "id": "cfg" if n % 2 else "", "v": 0, "s": 0, "d": "", "f": -1}
        if len(_all_ids(rr)) > 11: continue
        for f in gen.features(rr): ctx.region(f)
        cases.append({"recipe": rr, "src": "random", "prios_list": prios_lists(B_leaves(rr), ctx.rng, n=2, comp_ids=sorted(_explicit(rr) - {rr["id"]}))})
        n += 1
    for k, c in enumerate(cases):
        if k % 3 == 1 and not _has_prefix(c["recipe"]) and "via" not in c: c["via"] = "json"          # StingyConfigurator.from_json(recipe document)
        elif k % 7 == 3 and "via" not in c:
            c["style"] = 1; ctx.region("items_of_a_variable_sub_class")                                # items are instances of a puan.variable sub class
        elif k % 5 == 2 and "via" not in c and c["recipe"]["id"] and len(c["recipe"]["a"]) >= 2:
            c["via_add"] = True; ctx.region("built_by_add_after_queries")                              # all rules but the last, queried, then add(last rule)
    return cases

def _rename(r, prefix, memo=None):
    """explicit ids of independently generated rules are made distinct (shared sub-recipes stay shared)"""
    memo = {} if memo is None else memo
    if r["c"] == "leaf": return r
    if id(r) in memo: return memo[id(r)]
    r2 = dict(r)
    memo[id(r)] = r2
    r2["a"] = [_rename(x, prefix, memo) for x in r["a"]]
    if r["id"]: r2["id"] = prefix + r["id"]
    return r2

def _has_prefix(r):
    return r["c"] != "leaf" and (r.get("f", -1) != -1 or any(_has_prefix(x) for x in r["a"]))

def B_leaves(r):
    from . import build as B
    return list(B.recipe_leaves(r))

def _all_ids(r, acc=None):
    acc = set() if acc is None else acc
    if r["c"] == "leaf": acc.add(r["id"])
    else:
        acc.add(id(r) if not r["id"] else r["id"])
        for x in r["a"]: _all_ids(x, acc)
        if r["c"] in ("Xor", "ccXor", "XNor"): acc.update({("x", id(r), 1), ("x", id(r), 2)})
        if r["c"] in ("ccAny",): acc.add(("x", id(r), 3))
        if r["c"] == "Imply": acc.update({("x", id(r), 4), ("x", id(r), 5), ("x", id(r), 6)})
    return acc

def run_c14(ctx):
    if ctx.tier != "quick": ctx.lemma("ShadowLex", init_bad="InitBad")
    cases = cfg_cases(ctx, ["C14"])
    for k, c in enumerate(cases):
        c["solvers"] = ["capture"] if k % 4 else ["exact"]
        c["leaf_opts"] = [False]
    ctx.pmap(drivers.drv_select, _stamp(cases, "drv_select"))
    ctx.validate()

def run_c15(ctx):
    q = ctx.tier == "quick"
    cases = cfg_cases(ctx, ["C15"])
    modes = ["capture", "exact", "none", "raise", "mixed"]
    for k, c in enumerate(cases):
        c["solvers"] = [modes[k % 5], modes[(k + 2) % 5]]
        c["prios_list"] = c["prios_list"][k % 3::3] + c["prios_list"][3:4]
    ctx.pmap(drivers.drv_select, _stamp(cases, "drv_select"))
    # solve() on plain models with custom solvers
    u = universe(ctx.tier, ["AtLeast", "Any", "All", "Xor", "Imply"], leaves=[LEAF("a"), LEAF("b"), LEAF("t", -1, 2)], values=[1, 2], signs=(0, -1),
                 ids=("gen", "exp"), comp=2, kids=2)
    r = ctx.model_check("PuanBuild", u, invariants=["C01"], dump=True, name="Build_solve")
    sc = spec_cases(ctx, r)
    sc += random_cases(ctx, 150 if q else 2000, ["neg_lower_leaf", "explicit_id", "generated_id"], max_box=32, max_kids=3, depth=2)
    # inner sub-propositions with explicit ids that merely look generated
    sc += [c for c in var_prefix_cases(ctx) if c["recipe"]["c"] not in ("Cfg", "ccAny", "ccXor")]
    for c in sc:
        ids = B_leaves(c["recipe"])
        comp_ids = sorted(_explicit(c["recipe"]))
        objs = [[{}], [{ids[0]: 1}], [{ids[-1]: -2, ids[0]: 3}, {ids[0]: -1}]]
        if comp_ids: objs.append([{comp_ids[0]: 2, ids[0]: 1}])
        k = len(objs) + sum(map(ord, "".join(map(str, ids))))
        c["objectives_list"] = [objs[k % len(objs)], objs[(k + 1) % len(objs)]]
        c["solvers"] = [["capture", "exact", "none", "mixed"][k % 4], ["exact", "capture"][k % 2]]
    ctx.pmap(drivers.drv_solve, _stamp(sc, "drv_solve"))
    ctx.validate()

def _explicit(r, acc=None):
    acc = set() if acc is None else acc
    if r["c"] != "leaf":
        if r["id"]: acc.add(r["id"])
        for x in r["a"]: _explicit(x, acc)
    return acc

# ------------------------------------------------------------------------------------------- C09 / C18: call histories
def _cc(c, *a, id="", d=""):
    return {"c": c, "a": list(a), "id": id, "v": 0, "s": 0, "d": d, "f": -1}

def api_catalog():
    a, b, c, x, y = LEAF("a"), LEAF("b"), LEAF("c"), LEAF("x"), LEAF("y")
    t03, t12 = LEAF("t", 0, 3), LEAF("t", 1, 2)
    M1 = _R("All", _R("Any", a, b, id="B"), c, id="A")
    M2 = _R("AtLeast", t03, b, id="R", v=2)
    G1 = _R("Any", a, _R("Any", b, c))
    CfgD = _cc("Cfg", _cc("ccAny", a, b, c, id="X", d="a"), id="cfg")
    CfgP = _cc("Cfg", _R("Any", a, _R("Any", b, c), id="X"), id="cfg")          # the plain twin of CfgD (fixed finding D3)
    Cfg3 = _cc("Cfg", _R("AtLeast", t03, b, id="R", v=2), id="cfg")
    Cfg4 = _cc("Cfg", _R("AtLeast", t12, b, id="R", v=2), id="cfg")               # equal bound sums (fixed findings D3/D4)
    CfgG = _cc("Cfg", _cc("ccXor", x, y, d="x"), _R("Imply", _R("All", x), LEAF("z")))
    # degenerate parts: a leaf fixed by its bounds, a vacuous threshold ("at most 2 of p, q"), a pre-fixed sub-proposition
    M3 = _R("All", _R("Any", a, LEAF("k", 1, 1), id="B2"), _R("AtMost", LEAF("p"), LEAF("q"), id="V", v=2), dict(_R("Any", b, c, id="F"), f=1), id="A3")
    M4 = _R("All", dict(_R("Any", a, b, id="B"), f=1), _R("Imply", dict(_R("All", a, c, id="K"), f=0), b, id="I"), id="A4")
    return {"M4": M4, "M3": M3, "M1": M1, "M2": M2, "G1": G1, "CfgD": CfgD, "CfgP": CfgP, "Cfg3": Cfg3, "Cfg4": Cfg4, "CfgG": CfgG}

RULES = lambda: [_R("Any", LEAF("p"), LEAF("q"), id="P1"), _cc("ccAny", LEAF("p"), LEAF("q"), LEAF("a"), id="P2", d="p"),
                 _cc("ccXor", LEAF("r"), LEAF("s"), d="r"), _R("Imply", _R("All", LEAF("a")), LEAF("q"), id="P3"),
                 _R("Any", LEAF("a"), LEAF("q"), id="X"), _R("AtMost", LEAF("p"), LEAF("q"), LEAF("r"), v=1)]

# a plain, unnamed All of rules handed to add() as ONE rule
BUNDLE = lambda: _R("All", _R("Any", LEAF("p"), LEAF("q"), id="P7"), LEAF("r"))

ALL_OPS = ["evaluate", "evaluate_all", "assume", "reduce", "negate", "errors", "to_json", "to_b64", "to_poly", "flatten", "flags",
           "cfg_poly", "default_prios", "leafs", "select", "add", "add_q", "reload_b64", "solve", "builtin", "select_raise"]

def _fn_dict(d):
    return {k: list(v) for k, v in d.items()} if isinstance(d, dict) else {}

def api_histories(ctx, name, pairs, ops, maxlen, rules, dictvals=((0, 0), (0, 1)), deviations=(), expect_violation=None, dump=True):
    u = {"Pairs": S([list(p) for p in pairs]), "Ops": set(ops), "DictVals": S(dictvals), "MaxLen": maxlen,
         "Deviations": set(deviations), "RuleCat": {"$set": rules}}
    if expect_violation:
        d = os.path.join(ctx.work, "p1_" + name)
        r = tlc.model_check(d, "PuanAPI", u, properties=["Purity"], name=name)
        rec = {"module": "PuanAPI", "config": name, "constants": {"Deviations": sorted(deviations)}, "invariants": [], "properties": ["Purity"],
               "states": r["stats"]["generated"], "distinct": r["stats"]["distinct"], "depth": r["stats"]["depth"], "wall_s": round(r["wall"], 1),
               "ok": r["ok"], "violated": r["violated"], "expected": "violation of " + expect_violation}
        ctx.p1.append(rec)
        if r["ok"] or r["violated"] not in (expect_violation,):
            raise Machinery("the as-implemented API machine (Deviations=%s) was expected to violate %s, TLC said: %s" % (sorted(deviations), expect_violation, r["violated"]))
        return []
    r = ctx.model_check("PuanAPI", u, invariants=["Determinism", "AddIsBuild"], properties=["Purity", "IdKept"], dump=dump, name=name)
    hs, seen = [], set()
    for st in tlc.dump_states(r["dump_path"], only={"hist", "rcp"}):
        if len(st["hist"]) != maxlen: continue
        key = json.dumps([st["hist"], st["rcp"]], sort_keys=True)
        if key in seen: continue
        seen.add(key)
        hs.append(st)
    os.remove(r["dump_path"])
    hs.sort(key=lambda st: json.dumps([st["hist"], st["rcp"]], sort_keys=True))
    return hs

def history_cases(ctx, states, pairs_by_top):
    """TLC histories -> driver cases; the handles' initial recipes are recovered from the first-call-free prefix: the spec's
    rcp is the FINAL binding, so the initial pair is looked up by the (unchanged) top ids of its rules"""
    cases = []
    for st in states:
        calls = [{"h": c["h"], "op": c["op"], "d": _fn_dict(c["d"]), "rule": c["rule"] if isinstance(c["rule"], dict) else None} for c in st["hist"]]
        init = {}
        for h in ("h1", "h2"):
            r = st["rcp"][h]
            n_add = sum(1 for c in calls if c["op"] == "add" and c["h"] == h)
            # strip the rules appended by successful adds (each successful add appended exactly one rule at the end and fixed the id)
            base = r
            if n_add:
                k = len(r["a"])
                for cand in pairs_by_top:
                    if cand["c"] == r["c"] and len(cand["a"]) <= k and r["a"][:len(cand["a"])] == cand["a"] and (cand["id"] == r["id"] or cand["id"] == ""):
                        base = cand; break
            init[h] = base
        cases.append({"handles": init, "calls": calls})
    return cases

def run_histories(ctx, cases):
    refs = ctx.pmap_fresh(drivers.drv_reference, cases)
    kept = []
    for c, r in zip(cases, refs):
        if r and r[0].get("op") == "exc":
            # the library raised while the fresh, directly built reference objects were built or queried: that is an event of the
            # implementation (clause no_exception), not a failure of the machinery
            ctx.add_event(r[0], dict(c, driver="drv_reference"))
            continue
        if not r or r[0].get("op") != "ref":
            raise Machinery("reference run failed: %s" % (r,))
        c["refs"] = r[0]["res"]
        kept.append(c)
    cases = kept
    ctx.pmap(drivers.drv_history, _stamp(cases, "drv_history"))
    ctx.validate()
    # known findings: a KNOWN marker is only a finding if it is listed as open in known_findings.jsonl
    listed = {k["signature"]: k for k in ctx.known_findings if k.get("status") == "open"}
    ctx.known_printed = {}
    for tid, sigs in ctx.known.items():
        for sig in (sigs["$set"] if isinstance(sigs, dict) else sigs):
            name = sig.replace("KNOWN_", "")
            if name in listed:
                ctx.known_printed[name] = "%s (%s): %s" % (listed[name].get("id", ""), name, listed[name]["what"][:160])
            else:
                ctx.rejects.setdefault(tid, []).append("store_unchanged")

def shared_build_cases():
    a, b, c, x, y = LEAF("a"), LEAF("b"), LEAF("c"), LEAF("x"), LEAF("y")
    G = _R("Any", b, c)                       # a plain group the user keeps in a variable ...
    GN = _R("Any", b, c, id="G")
    K = _cc("ccAny", a, b, c, id="K", d="a")
    KX = _cc("ccXor", a, b, c, id="K", d="b")
    out = []
    for g in (G, GN, _R("All", b, c), _R("Xor", b, c, id="G")):
        out += [(_cc("Cfg", _cc("ccAny", a, g, id="X", d="a"), id="c1"), _cc("Cfg", _cc("ccAny", x, g, id="Y", d="x"), id="c2")),   # ... and uses in two groups
                (_cc("Cfg", _cc("ccXor", a, g, id="X", d="a"), id="c1"), _cc("Cfg", _cc("ccAny", g, y, id="Y", d="y"), id="c2")),
                (_cc("Cfg", _cc("ccAny", a, g, x, id="X", d="a"), id="c1"), _cc("Cfg", _cc("ccXor", a, g, x, id="X", d="x"), id="c2")),
                (_R("All", g, x, id="A"), _cc("Cfg", _cc("ccAny", a, g, id="X", d="a"), id="c2")),
                (_cc("Cfg", _cc("ccAny", a, g, id="X", d="a"), id="c1"), _R("Imply", x, g, id="I"))]
    for k in (K, KX):
        out += [(_cc("Cfg", k, id="c1"), _cc("Cfg", k, _R("Any", x, y, id="R"), id="c2")),
                (_cc("Cfg", k, id="c1"), _R("All", k, x, id="A")),
                (_cc("Cfg", k, _R("Imply", x, a, id="I"), id="c1"), _cc("Cfg", _R("Imply", x, a, id="I"), id="c2"))]
    out += [(_cc("Cfg", _cc("ccAny", a, b, c, id="X", d="a"), id="c1"), _cc("Cfg", _cc("ccAny", a, b, id="X", d="b"), id="c2")),
            (_R("All", _R("Any", a, b, id="B"), c, id="A"), _R("Any", _R("Any", a, b, id="B"), x, id="A2"))]
    return [{"first": f, "second": s_} for f, s_ in out] + [{"first": s_, "second": f} for f, s_ in out]

def run_c09(ctx):
    q = ctx.tier == "quick"
    ctx.pmap(drivers.drv_shared_build, _stamp(shared_build_cases(), "drv_shared_build"))
    ctx.region("sub_proposition_object_shared_by_two_models")
    dp = random_cases(ctx, 150 if q else 1500, REGIONS, max_box=128) + [{"recipe": r, "src": "handmade"} for r in adversarial_handmade()[:40]]
    cat0 = api_catalog()
    dp += [{"recipe": cat0[k], "src": "handmade"} for k in ("M1", "M2", "M3", "G1") if k in cat0]
    ctx.pmap(drivers.drv_derive_poke, _stamp(dp, "drv_derive_poke"))
    ctx.region("result_poked_source_checked")
    # module / class level state: the same constructor calls before and after unrelated use of the library, in a pristine process
    a_, b_, c_ = LEAF("a"), LEAF("b"), LEAF("c")
    probes = [dict(_cc("ccAny", a_, b_, c_, id="X"), d="a"), dict(_cc("ccXor", a_, b_, c_), d="b"), _R("Any", a_, _R("All", b_, c_, id="K"), id="A"),
              _R("Imply", _R("Any", a_, b_), c_), _R("Xor", a_, b_, c_, id="Z"), _R("AtLeast", a_, LEAF("t", -2, 3), v=2, s=1)]
    noise = [cat0[k] for k in ("CfgD", "CfgP", "Cfg3", "Cfg4", "CfgG", "M1", "M3")] + cicje_recipes()[:12]
    det = [{"probes": probes, "noise": noise[i:] + noise[:i]} for i in range(0, len(noise), 4)]
    for ev_ in ctx.pmap_fresh(drivers.drv_determinism, det, batch=1):
        for e in ev_: ctx.add_event(e, {"driver": "drv_determinism"})
    # ... and across processes: the probes in a process that did nothing else against the probes after other use of the library
    # (what is built FIRST in a process must not decide what the same constructor calls give)
    probes2 = probes + [_R("AtLeast", a_, b_, v=-1, s=0), _R("All", _R("AtLeast", a_, b_, v=-1, s=0), c_), _R("AtLeast", a_, b_, c_, v=1, s=0), _R("Any", a_, b_)]
    noise2 = noise + [_R("AtMost", a_, b_, v=1), _R("Not", _R("AtLeast", a_, b_, v=2, s=1)), _R("XNor", a_, b_), _R("AtLeast", a_, b_, c_, v=1, s=1), _R("Xor", a_, b_)]
    parts = ctx.pmap_fresh(drivers.drv_determinism, [{"probes": probes2, "noise": [], "noise_first": True}] +
                           [{"probes": probes2, "noise": noise2[i:] + noise2[:i], "noise_first": True} for i in range(0, len(noise2), 3)], batch=1)
    base_ = parts[0][0]["later"]
    for ev_ in parts[1:]:
        ctx.add_event({"op": "determinism", "first": base_, "later": ev_[0]["later"], "across_processes": True}, {"driver": "drv_determinism"})
    ctx.region("module_level_state_probe")
    cat = api_catalog()
    pairs = [(cat["M1"], cat["CfgD"]), (cat["CfgD"], cat["CfgP"]), (cat["Cfg3"], cat["Cfg4"]), (cat["G1"], cat["M2"]), (cat["M3"], cat["M3"]), (cat["M4"], cat["M1"])]
    if not q: pairs += [(cat["CfgP"], cat["CfgD"]), (cat["Cfg4"], cat["Cfg3"]), (cat["CfgG"], cat["M1"]), (cat["M1"], cat["M1"])]
    rules = RULES()[:2] if q else RULES()[:4]
    rules = rules + [BUNDLE()]
    # the intended design is pure; the as-implemented machine (named deviation) is not: TLC finds the purity counterexample itself
    api_histories(ctx, "API_as_implemented", pairs[:2], ["evaluate", "assume", "reduce"], 2, rules, deviations=["assume_own_id_leak"], expect_violation="Purity")
    states = api_histories(ctx, "API_intended", pairs, ALL_OPS, 2, rules)
    cases = history_cases(ctx, states, [p for pr in pairs for p in pr])
    if q and len(cases) > 5000:
        # stratified: every ordered pair of operations (on the same and on different handles) that TLC enumerated is replayed at least
        # a few times; the rest of the budget is a seeded sample
        ctx.notes.append("quick tier replays a stratified seeded sample of about 6000 of the %d enumerated length-2 histories (every ordered pair of operations present)" % len(cases))
        groups = {}
        for c in cases:
            key = tuple((x["op"], x["h"] == c["calls"][0]["h"]) for x in c["calls"])
            groups.setdefault(key, []).append(c)
        picked, rest = [], []
        for key in sorted(groups):
            g = groups[key]
            ctx.rng.shuffle(g)
            picked += g[:4]; rest += g[4:]
        cases = picked + ctx.rng.sample(rest, max(0, min(len(rest), 6000 - len(picked))))
        ctx.region("ordered_operation_pairs", len(groups))
    # length-3 histories over a few operations (read - call that triggers the known deviation - read again)
    st3 = api_histories(ctx, "API_len3", [(cat["M1"], cat["G1"])], ["flags", "assume", "evaluate_all", "reduce"], 3, rules[:1], dictvals=((0, 0), (1, 1)))
    c3 = history_cases(ctx, st3, [cat["M1"], cat["G1"]])
    n3 = 2000 if q else 20000
    if len(c3) > n3:
        ctx.notes.append("a seeded sample of %d of the %d enumerated length-3 histories is replayed" % (n3, len(c3)))
        c3 = ctx.rng.sample(c3, n3)
    cases += c3
    if not q:
        # longer histories: TLC simulates behaviours of the API machine (random walks of length 6), replayed like the others
        u = {"Pairs": S([list(p) for p in pairs]), "Ops": set(ALL_OPS), "DictVals": S(((0, 0), (1, 1), (0, 1))), "MaxLen": 6,
             "Deviations": set(), "RuleCat": {"$set": rules}}
        d = os.path.join(ctx.work, "p1_API_sim")
        r = tlc.model_check(d, "PuanAPI", u, invariants=["Determinism", "AddIsBuild"], name="API_sim",
                            simulate="file=%s/tr,num=1500" % d, workers=1)
        sims = [st for st in tlc.sim_final_states(d + "/tr", only={"hist", "rcp"}) if len(st.get("hist", [])) >= 3]
        ctx.p1.append({"module": "PuanAPI", "config": "API_sim (-simulate num=1500, depth 6)", "constants": {}, "invariants": ["Determinism", "AddIsBuild"],
                       "properties": [], "states": sum(len(st["hist"]) + 1 for st in sims), "distinct": sum(len(st["hist"]) + 1 for st in sims),
                       "depth": 6, "wall_s": round(r["wall"], 1), "ok": True, "violated": None})
        cases += history_cases(ctx, sims, [p for pr in pairs for p in pr])
        ctx.region("simulated_histories", len(sims))
    run_histories(ctx, cases)

def run_c18(ctx):
    q = ctx.tier == "quick"
    cat = api_catalog()
    a, b, c = LEAF("a"), LEAF("b"), LEAF("c")
    S_ = _R("Any", a, b, id="S")
    CfgN = _cc("Cfg", _R("All", S_, c, id="T"), id="cfgn")          # S is a NESTED sub-proposition: adding a rule named S is legitimate
    cat["CfgN"] = CfgN
    # top-level ITEMS (an integer one too) next to a rule; a configurator made of one anonymous All
    CfgI = _cc("Cfg", LEAF("n", -2, 3), LEAF("c"), _R("Any", a, b, id="X"), id="cfgi")
    CfgA = _cc("Cfg", _R("All", _R("Any", a, b), _R("Any", c, LEAF("d"))))
    pairs = [(cat["CfgD"], cat["CfgG"]), (CfgN, cat["CfgD"]), (CfgI, CfgA), (cat["CfgD"], cat["CfgD"])]      # the last: two extensions of one original
    R_ = RULES()
    rules = (R_ if not q else R_[:3] + [R_[4]]) + [S_, _R("All", S_, LEAF("q"), id="T")]      # R_[4] re-uses the id of an existing top-level rule
    rules += [_R("Any", LEAF("p"), LEAF("q"), id="n"), _R("Any", LEAF("p"), LEAF("r"), id="c")]      # rules named like top-level items
    rules += [_R("Xor", LEAF("p"), LEAF("q"), id="P1"), _R("All", LEAF("p"), LEAF("q"), id="P1")]      # alternative variants of the rule named P1
    rules += [_R("AtMost", LEAF("p"), LEAF("q"), v=2, id="T1"), _R("AtLeast", LEAF("p"), LEAF("r"), v=0, s=1, id="T2"),   # rules that always hold
              _R("AtMost", LEAF("a"), LEAF("b"), v=3)]
    rules += [LEAF("p"), LEAF("c"), LEAF("X")]            # bare items as "rules": a new one, one that is a top-level item already, one named like a rule
    rules += [BUNDLE()]
    if q:                                                   # the quick tier keeps one representative of each kind of rule
        drop = [json.dumps(x, sort_keys=True) for x in (_R("Any", LEAF("p"), LEAF("r"), id="c"), _R("AtLeast", LEAF("p"), LEAF("r"), v=0, s=1, id="T2"),
                                                        _R("AtMost", LEAF("a"), LEAF("b"), v=3), LEAF("X"))]
        rules = [x for x in rules if json.dumps(x, sort_keys=True) not in drop]
    states = api_histories(ctx, "API_add", pairs, ["add", "cfg_poly", "select"], 3, rules)
    cases = history_cases(ctx, states, [cat["CfgD"], cat["CfgG"], CfgN, CfgI, CfgA])
    cases = [c for c in cases if any(x["op"] == "add" for x in c["calls"])]
    cap = 2500 if q else 12000
    if len(cases) > cap:
        ctx.notes.append("a seeded sample of %d of the %d enumerated add histories is replayed (every history is model-checked by TLC)" % (cap, len(cases)))
        cases = ctx.rng.sample(cases, cap)
    # a sub-proposition of the added rule coincides with one the configurator already has, one of the two being the tagged non-default
    # branch of a defaulted group; the new rule's id sorts before / after the old rule's (all of these histories are replayed)
    p_, q_, r_, x_ = LEAF("p"), LEAF("q"), LEAF("r"), LEAF("x")
    CfgR = _cc("Cfg", _R("Imply", x_, _R("Any", p_, r_), id="R2"), id="cfgr")
    CfgX = _cc("Cfg", dict(_cc("ccXor", p_, q_, r_, id="R5"), d="q"), id="cfgx")
    co_rules = [dict(_cc("ccXor", p_, q_, r_, id="R1"), d="q"), dict(_cc("ccXor", p_, q_, r_, id="R9"), d="q"), dict(_cc("ccAny", p_, q_, r_, id="R1"), d="q"),
                _R("Imply", x_, _R("Any", p_, r_), id="R1"), _R("Imply", x_, _R("Any", p_, r_), id="R9"), _R("All", _R("Any", p_, r_), x_, id="R0"),
                # a whole configurator (a package of rules with its own id) added as ONE rule
                _cc("Cfg", _R("Any", p_, q_, id="K1"), _R("Any", q_, r_, id="K2"), id="pack"), _cc("Cfg", _R("Any", p_, x_, id="K3"), LEAF("y"))]
    # (second pair: sequences of additions that start from a configurator without any rule)
    CfgE, CfgE2 = _cc("Cfg", id="cfge"), _cc("Cfg")
    st2 = api_histories(ctx, "API_add_coincide", [(CfgR, CfgX), (CfgE, CfgE2)], ["add", "add_q", "default_prios", "select"], 2, co_rules)
    c2 = [c for c in history_cases(ctx, st2, [CfgR, CfgX, CfgE, CfgE2]) if any(x["op"] in ("add", "add_q") for x in c["calls"])]
    ctx.region("added_rule_shares_a_tagged_sub_proposition", len(c2))
    run_histories(ctx, cases + c2)

# ------------------------------------------------------------------------------------------- EXTRA: behaviour beyond the listed properties
def run_extra(ctx):
    q = ctx.tier == "quick"
    u = universe(ctx.tier, ["AtLeast", "Any", "Xor", "Imply"], leaves=[LEAF("a"), LEAF("b"), LEAF("t", -1, 1)], values=[0, 1, 2], signs=(0, -1), ids=("gen", "exp"), comp=2, kids=2)
    r = ctx.model_check("PuanBuild", u, invariants=["C03"], dump=True, name="Build_extra")
    cases = spec_cases(ctx, r) + random_cases(ctx, 200 if q else 2000, ["depth>=3", "explicit_id"], max_box=64)
    ctx.pmap(drivers.drv_x_model, _stamp(cases, "drv_x_model"))
    pc = poly_universe(ctx, ["RowBoundsExact"], "Poly_extra", bs=range(-1, 2), bounds=((0, 1), (-1, 2))) + random_polys(ctx, 300 if q else 3000)
    for c in pc:
        n = len(c["bounds"])
        c["mask"] = [ctx.rng.choice([0, 0, 1, 2]) for _ in range(n)]
        w = ctx.rng.randint(1, max(1, n))
        c["patterns"] = [[ctx.rng.choice([0, 1, 1]) for _ in range(w)] for _ in range(ctx.rng.randint(1, 3))]
    # patterns taken from the rows themselves (the interesting branches of neglectable_columns)
    for c in list(pc[:: 3]):
        n = len(c["bounds"])
        rows = [[1 if v else 0 for v in r[1:]] for r in c["rows"]]
        if rows and n:
            c2 = dict(c, patterns=[rows[0]] + [[ctx.rng.choice([0, 1]) for _ in range(n)] for _ in range(ctx.rng.randint(0, 2))] + rows[1:2])
            pc.append(c2)
    ctx.pmap(drivers.drv_x_poly, _stamp(pc, "drv_x_poly"))
    rng = ctx.rng
    ac = []
    for k in range(400 if q else 4000):
        n = rng.randint(1, 5)
        if k % 2:
            ac.append({"kind": "vec", "x": [rng.randint(-3, 3) for _ in range(n)], "delta": [rng.randint(1, 3)] * n if k % 4 == 1 else [rng.randint(0, 3) for _ in range(n)]})
        else:
            ac.append({"kind": "mat", "x": [[0 if rng.random() < 0.4 else rng.randint(-4, 4) for _ in range(n)] for _ in range(rng.randint(1, 4))]})
    ctx.pmap(drivers.drv_x_arrays, _stamp(ac, "drv_x_arrays"))
    mc = []
    for k in range(300 if q else 3000):
        ids = rng.sample(["a", "b", "c", "d", "B", "Z", "k1", "k2"], rng.randint(1, 5))
        mc.append({"d": [[i, rng.randint(0, 5)] for i in ids[: rng.randint(0, len(ids))]], "keys": rng.sample(ids + ["zz"], rng.randint(0, min(3, len(ids) + 1))),
                   "default": rng.choice([None, 0, 7]), "value": rng.randint(10, 20), "lo": rng.randint(-1, 2), "hi": rng.randint(-1, 2), "ids": ids})
    ctx.pmap(drivers.drv_x_misc, _stamp(mc, "drv_x_misc"))
    ctx.validate()

EXTRA_CLAUSES = {"short_of", "from_short", "variables", "atomic_compound", "reduced_cols", "reduced_projection", "row_distribution", "row_stretch_int",
                 "nb_addition", "nb_subtraction", "nb_all", "nb_on_off", "nb_on", "nb_off", "reduce2d_first", "reduce2d_last", "ranking", "helpers_pure",
                 "row_stretch", "neglect_exact", "neglect_meaning", "neglect_receiver", "neglectable", "text_lines", "text_no_repeats", "text_sorted",
                 "or_get", "or_replace", "bounds_order", "bool_dtype", "compound_bounds", "sorted_by_id", "same_ids", "no_exception"}

PROPS = {
    "EXTRA": {"run": run_extra, "clauses": EXTRA_CLAUSES},
    "C09": {"run": run_c09, "clauses": {"store_unchanged", "no_unexplained_overwrite", "result_as_fresh", "result_as_state", "old_unchanged", "no_exception"}},
    "C18": {"run": run_c18, "clauses": {"refused_iff_clash", "is_direct_build", "id_kept", "old_unchanged", "no_exception"}},
    "C13": {"run": run_c13, "clauses": {m + ":" + c for m in drivers.METHODS for c in ("shape", "exact", "prio_dense", "rank_dense", "zeros_signs", "ties", "order", "dominance", "unknown_method")} | {"no_exception"}},
    "C14": {"run": run_c14, "clauses": {"ranks", "opt_same", "dpv_expected", "poly_is_own", "objective_count", "cols_cover_leaves", "no_exception"}},
    "C15": {"run": run_c15, "clauses": {"ranks", "objective_levels", "opt_same", "dpv_expected", "cols_cover_leaves", "poly_is_own", "objective_count", "objective_by_id", "ids_aligned", "optimal", "model_true", "raises_infeasible", "no_exception"}},
    "C11": {"run": run_c11, "clauses": {"shape", "rows_implied", "cols_forced", "projection", "labels", "loop_inv", "reduce_cols_fn", "reduce_rows_fn", "no_exception",
                                        "ph_red_rows", "ph_red_cols", "ph_reduce_cols_fn", "ph_reduce_rows_fn", "ph_projection", "ph_labels", "ph_same_polyhedron", "ph_no_exception"}},
    "C12": {"run": run_c12, "clauses": {"shape", "contain", "no_widen", "contra_only_if_empty", "rowb_exact", "colb", "ncomb", "no_exception", "ph_tighten", "ph_rowb", "ph_colb", "ph_ncomb", "ph_no_exception"}},
    "C19": {"run": run_c19, "clauses": {"sat_value", "sep_value", "rowsep_value", "no_exception", "ph_sat", "ph_sep", "ph_rowsep", "ph_no_exception"}},
    "C20": {"run": run_c20, "clauses": {"construct", "partition", "from_list_bool", "from_list_int", "from_list_nested", "to_list", "to_list_nested", "split_Ab", "no_exception", "ph_split", "ph_idx", "ph_no_exception"}},
    "C16": {"run": run_c16, "clauses": {"back_is_model", "leaves_same", "points_complete", "equiv", "equiv_struct", "ids_explicit",
                                        "ids_generated_absent", "defaults_same", "dp_same", "poly_same", "no_exception"}},
    "C17": {"run": run_c17, "clauses": {"struct_same", "text_same", "queries_same", "poly_struct_same", "poly_again_same", "select_same", "no_exception",
                                        "store_unchanged", "result_as_fresh", "result_as_state", "is_direct_build"}},
    "C10": {"run": run_c10, "clauses": {"accepted_welldef", "tree_accepted", "shared_accepted", "no_exception"}},
    "C01": {"run": run_c01, "clauses": {"points_complete", "cols_are_ids", "ev_total", "iff_top", "inactive_feasible", "no_exception"}},
    "C02": {"run": run_c02, "clauses": {"points_complete", "cols_are_ids", "cols_bounds", "complete", "sound_if_safe", "safe_built", "no_exception"}},
    "C03": {"run": run_c03, "clauses": {"dom_ok", "val_equal", "top_equal", "const_on_total", "no_exception"}},
    "C04": {"run": run_c04, "clauses": {"built_valid", "leaves_same", "table_complete", "truthfn", "truthfn_struct", "id_kept", "gen_flag", "no_exception"}},
    "C05": {"run": run_c05, "clauses": {"points_complete", "complement", "complement_struct", "safe_kept", "id_kept", "no_exception"}},
    "C06": {"run": run_c06, "clauses": {"dom_ok", "sound", "top_equal", "eqb_exact", "taut", "contra", "no_exception"}},
    "C07": {"run": run_c07, "clauses": {"result_stable", "rest_complete", "equiv_union", "equiv_struct", "bounds_contain", "no_exception"}},
    "C08": {"run": run_c08, "clauses": {"rest_complete", "equiv", "equiv_struct", "no_const_inside", "no_exception"}},
}

# ------------------------------------------------------------------------------------------- P4
def finish(ctx):
    meta = PROPS[ctx.pid]
    mine, other = {}, {}
    for tid, cl in ctx.rejects.items():
        a = [c for c in cl if c in meta["clauses"] or c == "spec_eval_error"]
        b = [c for c in cl if c not in meta["clauses"]]
        if a: mine[tid] = a
        if b: other[tid] = b
    outside = sum(1 for i in ctx.infos if i and i[-1] == "outside_domain")
    viol_files = []
    if mine:
        d = os.path.join(core.VERIF, "replays", ctx.pid)
        os.makedirs(d, exist_ok=True)
        seen = set()
        for tid in sorted(mine):
            key = tuple(mine[tid])
            if key in seen and len(viol_files) >= 3: continue
            if len(viol_files) >= 8: break
            seen.add(key)
            ev = ctx.events[tid - 1]
            rep = {"property": ctx.pid, "clauses": mine[tid], "case": ctx.cases[tid], "event": ev,
                   "tier": ctx.tier, "seed": ctx.seed}
            p = os.path.join(d, core.sha([ctx.cases[tid], mine[tid]]) + ".json")
            if p in viol_files: continue
            if not getattr(ctx, "replaying", False):
                json.dump(rep, open(p, "w"), indent=1, default=str)
            viol_files.append(p)
    for k, v in sorted(getattr(ctx, "known_printed", {}).items()):
        print("KNOWN-FINDING: property=%s %s" % (ctx.pid, v))
    if ctx.pid == "EXTRA":
        import collections
        per = collections.Counter(c for v in mine.values() for c in v)
        for c, k in sorted(per.items()):
            print("EXTRA-BEHAVIOUR clause=%s mismatching_events=%d (not a listed property; see DESIGN section 10 / observations)" % (c, k))
        ctx.notes.append("mismatches per clause: %s" % dict(per))
    for p in viol_files:
        if ctx.pid != "EXTRA":
            print("VIOLATION property=%s replay=%s" % (ctx.pid, p))
    if other:
        cl = sorted({c for v in other.values() for c in v})
        print("NOTE %d events failed clauses of other properties (%s); not an alarm for %s" % (len(other), ",".join(cl), ctx.pid))
    if not getattr(ctx, "replaying", False):
        write_evidence(ctx, mine, outside)      # a replay of one case is not evidence
    print("%s %s: p1_states=%d events=%d accepted=%d violations=%d outside_domain=%d wall=%.1fs (p1 %.0fs, p2 %.0fs, p3 %.0fs)" % (
        ctx.pid, ctx.tier, sum(x["distinct"] for x in ctx.p1), len(ctx.events),
        len(ctx.events) - len(ctx.rejects) - outside, len(mine), outside, time.time() - ctx.t0,
        sum(x["wall_s"] for x in ctx.p1), getattr(ctx, "p2_wall", 0.0), ctx.p3_wall))
    if ctx.pid == "EXTRA":
        return 0
    return 1 if mine else 0

def _sample(ev):
    s = json.dumps(ev, separators=(",", ":"))
    if len(s) <= 1500: return ev
    e = dict(ev)
    for k in ("points", "table"):
        if k in e and isinstance(e[k], list) and len(e[k]) > 2:
            e[k] = e[k][:2] + ["... %d more" % (len(ev[k]) - 2)]
    return e

def write_evidence(ctx, mine, outside):
    evs = ctx.events
    npoints = sum(len(e.get("points", e.get("table", [0]))) for e in evs)
    distinct = len({core.sha({k: v for k, v in e.items() if k != "tid"}) for e in evs
                    if e["tid"] not in ctx.rejects or True})
    nontrivial = len({core.sha(e.get("model", e.get("case", e))) for e in evs}) if evs else 0
    samples = [_sample(e) for e in (evs[:1] + evs[len(evs) // 2: len(evs) // 2 + 1] + evs[-1:])]
    p1_states = sum(x["distinct"] for x in ctx.p1)
    p1_trans = sum(x["states"] for x in ctx.p1)
    cov = {
        "states": max(1, p1_states + ctx.p3_states),
        "transitions": max(1, p1_trans + max(0, ctx.p3_states - 1)),
        "traces_validated_against_impl": len(evs) - len(ctx.rejects) - outside,
        "samples": samples,
        "evaluations": max(1, npoints),
        "distinct_nontrivial": nontrivial,
        "rule": "P1: TLC enumerates the specification universe(s) listed under spec_runs and checks the property's invariant on "
                "every state; every enumerated recipe plus a seeded random batch is replayed into the real library (fresh "
                "objects), each recorded event is validated by TLC against PuanTrace.tla. distinct_nontrivial = number of "
                "distinct projected models/inputs among the recorded events; evaluations = number of recorded points "
                "(assignments / interpretations / table rows) inside them.",
        "exhaustive": bool(ctx.p1),
        "spec_runs": ctx.p1,
        "trace_events": len(evs),
        "trace_states": ctx.p3_states,
        "events_outside_domain": outside,
        "regions": ctx.regions,
        "rejected_events": len(ctx.rejects),
        "checker_cmd": "tlc PuanBuild/MC (P1) ; tlc PuanTrace (P3, TRACE_FILE=<recorded events>)",
        "notes": ctx.notes,
    }
    ev = {"property_id": ctx.pid, "tier": ctx.tier, "seed": ctx.seed, "level": "model_checking",
          "coverage": cov, "violations": len(mine), "wall_s": round(time.time() - ctx.t0, 1),
          "assumptions": ["TLC/SANY and the CommunityModules Json module are correct",
                          "the projection harness/proj.py reports public attributes faithfully (self-test corrupts fields and expects rejection)",
                          "sha256 generated ids do not collide on the explored models"]}
    os.makedirs(os.path.join(core.VERIF, "evidence"), exist_ok=True)
    json.dump(ev, open(os.path.join(core.VERIF, "evidence", ctx.pid + ".json"), "w"), indent=1, default=str)

def replay(ctx, path):
    rep = json.load(open(path))
    case = rep["case"]
    drv = getattr(drivers, case["driver"])
    for e in core._safe_call(drv, case):
        ctx.add_event(e, case)
    ctx.validate()
    return finish(ctx)
