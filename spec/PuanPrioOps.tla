---------------------------- MODULE PuanPrioOps ----------------------------
EXTENDS PuanModel
PrioOpNames == {}
PrioVerdict(e) == {"unknown_op"}
=============================================================================
