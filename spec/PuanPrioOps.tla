---------------------------- MODULE PuanPrioOps ----------------------------
EXTENDS Integers, Sequences, FiniteSets, TLC
PrioVerdict(e) == {"unknown_op"}
=============================================================================
