---------------------------- MODULE PuanPrioOps ----------------------------
(***************************************************************************)
(* Priority compression (integer_ndarray.ndint_compress), objective        *)
(* vectors of the configurator and the solver bridge: pure operators and   *)
(* the trace verdicts of C13, C14, C15.                                    *)
(* A 2-D array is X : Seq(rows) of Seq(cols); compression is along the     *)
(* rows (axis 0): one result entry per column.                             *)
(***************************************************************************)
EXTENDS PuanCtor

Abs(x) == IF x < 0 THEN -x ELSE x
Sgn(x) == IF x < 0 THEN -1 ELSE IF x > 0 THEN 1 ELSE 0
NCols(X) == Len(X[1])
Cols(X) == 1..NCols(X)
NzRows(X, j) == { i \in DOMAIN X : X[i][j] # 0 }
Live(X) == { j \in Cols(X) : NzRows(X, j) # {} }
\* level of a column = <<row, |value|>> of its LAST non-zero entry
LRow(X, j) == SetMax(NzRows(X, j))
LVal(X, j) == X[LRow(X, j)][j]
Level(X, j) == <<LRow(X, j), Abs(LVal(X, j))>>
LvLess(a, b) == a[1] < b[1] \/ (a[1] = b[1] /\ a[2] < b[2])
Below(X, j, k) == LvLess(Level(X, j), Level(X, k))
Same(X, j, k)  == Level(X, j) = Level(X, k)
Levels(X) == { Level(X, j) : j \in Live(X) }

(* ---- exact methods ------------------------------------------------------- *)
FirstNZ(X) == [ j \in Cols(X) |-> IF j \in Live(X) THEN X[SetMin(NzRows(X, j))][j] ELSE 0 ]
LastNZ(X)  == [ j \in Cols(X) |-> IF j \in Live(X) THEN LVal(X, j) ELSE 0 ]
MinNZ(X)   == [ j \in Cols(X) |-> IF j \in Live(X) THEN SetMin({ X[i][j] : i \in NzRows(X, j) }) ELSE 0 ]
MaxAll(X)  == [ j \in Cols(X) |-> SetMax({ X[i][j] : i \in DOMAIN X }) ]

(* ---- prio: dense rank of the level, sign and zeros kept ---------------------- *)
Prio(X) == [ j \in Cols(X) |-> IF j \in Live(X)
                               THEN Sgn(LVal(X, j)) * (1 + Cardinality({ lv \in Levels(X) : LvLess(lv, Level(X, j)) }))
                               ELSE 0 ]
\* r is an order preserving dense ranking of the vector p (ties kept, values contiguous, starting at 0 or 1)
DenseRankOf(p, r) ==
  /\ DOMAIN r = DOMAIN p
  /\ \A j, k \in DOMAIN p : (p[j] < p[k] <=> r[j] < r[k]) /\ (p[j] = p[k] <=> r[j] = r[k])
  /\ DOMAIN p # {} => LET V == { r[j] : j \in DOMAIN r } IN
                        SetMin(V) \in {0, 1} /\ V = SetMin(V)..SetMax(V)

(* ---- shadow: the relation the property states (any w with these features is acceptable) *)
ShadowOK(X, w) ==
  /\ DOMAIN w = Cols(X)
  /\ \A j \in Cols(X) : IF j \in Live(X) THEN Sgn(w[j]) = Sgn(LVal(X, j)) ELSE w[j] = 0
  /\ \A j, k \in Live(X) : /\ Same(X, j, k) => Abs(w[j]) = Abs(w[k])
                           /\ Below(X, j, k) => Abs(w[j]) < Abs(w[k])
  /\ \A j \in Live(X) : Abs(w[j]) > SumSeq([ k \in Cols(X) |-> IF k \in Live(X) /\ Below(X, k, j) THEN Abs(w[k]) ELSE 0 ])
\* ... and one algorithm that satisfies it (weight of a level = 1 + sum of all lower weights, with multiplicity)
RECURSIVE Wt(_, _)
Wt(X, j) == 1 + SumSeq([ k \in Cols(X) |-> IF k \in Live(X) /\ Below(X, k, j) THEN Wt(X, k) ELSE 0 ])
Shadow(X) == [ j \in Cols(X) |-> IF j \in Live(X) THEN Sgn(LVal(X, j)) * Wt(X, j) ELSE 0 ]

(* ---- lexicographic ranking of points by levels (C14 core) -------------------------- *)
Score(w, x) == SumSeq([ j \in DOMAIN w |-> w[j] * x[j] ])
LvScore(X, x, lv) == SumSeq([ j \in Cols(X) |-> IF j \in Live(X) /\ Level(X, j) = lv THEN Sgn(LVal(X, j)) * x[j] ELSE 0 ])
\* x is lexicographically below y: at the highest level where they differ, x scores less
LexLess(X, x, y) == \E lv \in Levels(X) : /\ LvScore(X, x, lv) < LvScore(X, y, lv)
                                          /\ \A hi \in Levels(X) : LvLess(lv, hi) => LvScore(X, x, hi) = LvScore(X, y, hi)
LexSame(X, x, y) == \A lv \in Levels(X) : LvScore(X, x, lv) = LvScore(X, y, lv)
\* the weight vector w ranks the point set P exactly like the levels of X
RanksOn(X, w, P) == \A x, y \in P : (LexLess(X, x, y) <=> Score(w, x) < Score(w, y)) /\ (LexSame(X, x, y) => Score(w, x) = Score(w, y))

(* ---- transposition / batches --------------------------------------------------------- *)
Transpose(X) == [ j \in Cols(X) |-> [ i \in DOMAIN X |-> X[i][j] ] ]

(* ---- trace verdicts --------------------------------------------------------------------- *)
QFail(c, ok) == IF ok THEN {} ELSE {c}
\* one 2-D compression along axis 0 of X with recorded result r
Compress2(method, X, r) ==
  IF X = <<>> \/ Len(r) # NCols(X) THEN {"shape"} ELSE
  CASE method = "first" -> QFail("exact", r = FirstNZ(X))
    [] method = "last"  -> QFail("exact", r = LastNZ(X))
    [] method = "min"   -> QFail("exact", r = MinNZ(X))
    [] method = "max"   -> QFail("exact", r = MaxAll(X))
    [] method = "prio"  -> QFail("prio_dense", r = Prio(X))
    [] method = "rank"  -> QFail("rank_dense", DenseRankOf(Prio(X), r))
    [] method = "shadow" -> QFail("zeros_signs", \A j \in Cols(X) : IF j \in Live(X) THEN Sgn(r[j]) = Sgn(LVal(X, j)) ELSE r[j] = 0)
                            \cup QFail("ties", \A j, k \in Live(X) : Same(X, j, k) => Abs(r[j]) = Abs(r[k]))
                            \cup QFail("order", \A j, k \in Live(X) : Below(X, j, k) => Abs(r[j]) < Abs(r[k]))
                            \cup QFail("dominance", \A j \in Live(X) : Abs(r[j]) > SumSeq([ k \in Cols(X) |-> IF k \in Live(X) /\ Below(X, k, j) THEN Abs(r[k]) ELSE 0 ]))
    [] OTHER -> {"unknown_method"}
\* event: {kind: "2d0" | "2d1" | "flat" | "3d0", x: nested ints, runs: [{m: method, r: result}]}
Compress1(kind, method, x, r) ==
  CASE kind = "2d0"  -> Compress2(method, x, r)
    [] kind = "2d1"  -> Compress2(method, Transpose(x), r)
    [] kind = "flat" -> Compress2(method, <<x>>, r)
    \* a stack x[g][i][j] with axis 0: 'min'/'max' reduce literally along axis 0 (over g, numpy semantics);
    \* the other methods compress every item of the batch along its own rows
    [] kind = "3d0"  -> IF method \in {"min", "max"}
                        THEN IF Len(r) # Len(x[1]) THEN {"shape"}
                             ELSE UNION { Compress2(method, [ g \in DOMAIN x |-> x[g][i] ], r[i]) : i \in DOMAIN x[1] }
                        ELSE IF Len(r) # Len(x) THEN {"shape"}
                        ELSE UNION { Compress2(method, x[g], r[g]) : g \in DOMAIN x }
    [] OTHER -> {"unknown_kind"}
EvCompress(e) == UNION { { e.runs[k].m \o ":" \o c : c \in Compress1(e.kind, e.runs[k].m, e.x, e.runs[k].r) } : k \in DOMAIN e.runs }

(* ---- configurator objective (C14) ------------------------------------------------------- *)
\* level matrix of a select() request: row 1 = default priorities, row 2 = the user's priorities, by column id
UserRow(cols, prios) == [ j \in DOMAIN cols |-> IF cols[j].id \in DOMAIN prios THEN prios[cols[j].id] ELSE 0 ]
LevelMatrix(cols, dpv, prios) == << [ j \in DOMAIN cols |-> dpv[j] ], UserRow(cols, prios) >>
\* points as sequences over column positions
PolyPts(p) == { [ j \in DOMAIN p.cols |-> x[p.cols[j].id] ] :
                x \in { x \in RangeProduct(ColIds(p.cols), [ i \in ColIds(p.cols) |-> p.cols[CHOOSE j \in DOMAIN p.cols : p.cols[j].id = i].lo ],
                                                        [ i \in ColIds(p.cols) |-> p.cols[CHOOSE j \in DOMAIN p.cols : p.cols[j].id = i].hi ]) : MSat(p.rows, p.cols, x) } }
ArgMax(w, P) == { x \in P : \A y \in P : Score(w, y) <= Score(w, x) }

\* the specified configurator: structure from the recipe, default priorities from the structure
\* one column per id (the same definition may occur under several classes, e.g. the "at least one" half of an Xor and an Any)
SpecCols(n) == SetToSeq({ (CHOOSE m \in Flat(n) : m.id = i) : i \in Ids(n) \ {n.id} })
PrioConsistent(n) == \A x, y \in Comps(n) : x.id = y.id => x.prio = y.prio
SpecPoly(n) == LET cs == SpecCols(n)
                   cols == [ j \in DOMAIN cs |-> [id |-> cs[j].id, lo |-> cs[j].lo, hi |-> cs[j].hi] ]
                   rs == SetToSeq(Rows(n, TRUE))
                   rows == [ i \in DOMAIN rs |-> [b |-> rs[i].b, a |-> [ j \in DOMAIN cols |-> IF cols[j].id \in DOMAIN rs[i].c THEN rs[i].c[cols[j].id] ELSE 0 ]] ]
               IN [rows |-> rows, cols |-> cols, dpv |-> [ j \in DOMAIN cs |-> IF IsAtom(cs[j]) THEN -1 ELSE cs[j].prio ]]
\* a structural key of a node that does not mention generated ids (the real generated ids are sha digests, the specified ones are
\* not): leaves and explicitly named nodes by id, generated nodes by sign, value and the set of their children's keys
RECURSIVE NodeKey(_)
NodeKey(n) == IF IsAtom(n) THEN "a:" \o n.id
              ELSE IF ~n.gen THEN "e:" \o n.id
              ELSE "g(" \o ToString(n.sign) \o "," \o ToString(n.value) \o "," \o ToString({ NodeKey(n.kids[i]) : i \in DOMAIN n.kids }) \o ")"
\* the default priority every column must carry: -1, except -2 on the non-default branch of a defaulted Any/Xor, as specified by
\* the recipe (matched structurally; a column whose node has no structural counterpart in the specified configurator is not judged)
DpvExpected(m, spec, cols, dpv) ==
  \A j \in DOMAIN cols : \A nd \in { x \in Flat(m) : x.id = cols[j].id } :
     \A sx \in { x \in Flat(spec) : NodeKey(x) = NodeKey(nd) } : dpv[j] = (IF IsAtom(sx) THEN -1 ELSE sx.prio)
\* leaf parts (as functions id -> value) of a set of points of polyhedron p
LeafParts(p, P, leafIds) == { [ i \in leafIds |-> x[CHOOSE j \in DOMAIN p.cols : p.cols[j].id = i] ] : x \in P }

(* ---- solver bridge events (C14 / C15) ----------------------------------------------------- *)
\* what a reported dictionary must be: every kept column's id mapped to the solver's entry for THAT column
ReportOf(cols, x, keep(_)) == [ i \in { cols[j].id : j \in { j \in DOMAIN cols : keep(j) } } |-> x[CHOOSE j \in DOMAIN cols : cols[j].id = i] ]
SameFn(f, g) == DOMAIN f = DOMAIN g /\ \A i \in DOMAIN f : f[i] = g[i]
AnswersOK(e, keep(_)) ==
  /\ Len(e.reported) = Len(e.returned)
  /\ \A k \in DOMAIN e.returned :
        IF e.returned[k].none THEN e.reported[k] = <<>>
        ELSE Len(e.returned[k].x) = Len(e.received.cols) /\ SameFn(PairsFn(e.reported[k]), ReportOf(e.received.cols, e.returned[k].x, keep))

\* "default" has the stated meaning only for a defaulted group that is asserted as it stands: on the path from the configurator to the
\* group no node negates it (condition of an Imply, Not, XNor, the at-most half of an Xor / ExactlyOne, AtMost, negative sign).
\* For other recipes the clauses about defaults (dpv_expected, opt_same) do not judge; ranks still does, from the actual priorities.
RECURSIVE DefaultsPositive(_, _)
DefaultsPositive(r, pos) ==
  IF r.c = "leaf" THEN TRUE
  ELSE /\ (r.d # "" => pos)
       /\ \A i \in DOMAIN r.a : DefaultsPositive(r.a[i],
              IF r.c \in {"Cfg", "All", "Any", "ccAny"} \/ (r.c = "Imply" /\ i = 2) \/ (r.c = "AtLeast" /\ r.s >= 0) THEN pos ELSE FALSE)

EvSelect(e) ==
  LET m == e.model
      dok == e.spec_ok /\ DefaultsPositive(e.recipe, TRUE)
      rc == e.received
      called == e.called
      lids == LeafIds(m)
      spec == SpecPoly(Mk(e.recipe))
      sm == Mk(e.recipe)
      \* the domain is decided on the SPECIFIED configurator (what the recipe denotes); a recipe in the domain whose built object is
      \* not well defined (say, a group that kept an option twice) is not the specified configurator
  IN IF ~(~IsAtom(sm) /\ WellDefined(sm) /\ NoByRef(sm) /\ PrioConsistent(sm)) \/ IsAtom(m) THEN {"outside_domain"}
     ELSE IF ~(WellDefined(m) /\ NoByRef(m) /\ PrioConsistent(m)) THEN (IF e.spec_ok THEN {"dpv_expected"} ELSE {"outside_domain"})
     ELSE IF e.solver = "raise" THEN QFail("raises_infeasible", e.exc = "InfeasibleError")
     ELSE QFail("no_exception", e.exc = "")
     \cup (IF e.exc # "" \/ ~called THEN {} ELSE
           QFail("poly_is_own", rc.rows = e.direct.rows /\ rc.cols = e.direct.cols /\ rc.dpv = e.direct.dpv)
           \cup QFail("dpv_expected", (dok /\ Len(rc.dpv) = Len(rc.cols)) => DpvExpected(m, Mk(e.recipe), rc.cols, rc.dpv))
           \cup QFail("objective_count", Len(rc.objectives) = Len(e.prios) /\ \A k \in DOMAIN rc.objectives : Len(rc.objectives[k]) = Len(rc.cols))
           \cup (IF Len(rc.objectives) # Len(e.prios) \/ \E k \in DOMAIN rc.objectives : Len(rc.objectives[k]) # Len(rc.cols) THEN {} ELSE
                 \* the ranking statement is about boolean items; with integer items only the level structure of the weights is judged
                 QFail("ranks", (e.enum /\ \A j \in DOMAIN rc.cols : rc.cols[j].lo = 0 /\ rc.cols[j].hi = 1) => \A k \in DOMAIN e.prios :
                            RanksOn(LevelMatrix(rc.cols, rc.dpv, PairsFn(e.prios[k])), rc.objectives[k], PolyPts(rc)))
                 \cup QFail("objective_levels", Len(rc.dpv) = Len(rc.cols) => \A k \in DOMAIN e.prios :
                            ShadowOK(LevelMatrix(rc.cols, rc.dpv, PairsFn(e.prios[k])), rc.objectives[k]))
                 \cup QFail("cols_cover_leaves", lids \subseteq ColIds(rc.cols))
                 \cup QFail("opt_same", (lids \subseteq ColIds(rc.cols) /\ e.enum /\ dok) => \A k \in DOMAIN e.prios :
                            LeafParts(rc, ArgMax(rc.objectives[k], PolyPts(rc)), lids)
                            = LeafParts(spec, ArgMax(Shadow(LevelMatrix(spec.cols, spec.dpv, PairsFn(e.prios[k]))), PolyPts(spec)), lids)))
           \cup QFail("ids_aligned", AnswersOK(e, LAMBDA j : (~e.only_leafs) \/ rc.cols[j].id \in lids))
           \cup QFail("optimal", (e.solver = "exact" /\ e.enum) => \A k \in DOMAIN e.returned : LET P == PolyPts(rc) IN
                            IF e.returned[k].none THEN P = {} ELSE e.returned[k].x \in ArgMax(rc.objectives[k], P)))

EvSolve(e) ==
  LET m == e.model
      rc == e.received
      lids == LeafIds(m)
  IN QFail("no_exception", e.exc = "")
     \cup (IF e.exc # "" THEN {} ELSE
           QFail("poly_is_own", rc.rows = e.direct.rows /\ rc.cols = e.direct.cols)
           \cup QFail("objective_by_id", /\ Len(rc.objectives) = Len(e.objectives)
                                          /\ \A k \in DOMAIN rc.objectives : LET w == PairsFn(e.objectives[k]) IN
                                                /\ Len(rc.objectives[k]) = Len(rc.cols)
                                                /\ \A j \in DOMAIN rc.cols : rc.objectives[k][j] = (IF rc.cols[j].id \in DOMAIN w THEN w[rc.cols[j].id] ELSE 0))
           \* (helper variables are the ones the LIBRARY named: every column whose id the caller did not give - by the recipe, not by the
           \* flag the library keeps)
           \cup QFail("ids_aligned", AnswersOK(e, LAMBDA j : (rc.cols[j].id \in RExplicit(e.recipe) \cup lids) \/ e.include_virtual))
           \cup QFail("optimal", (e.solver = "exact" /\ e.enum) => \A k \in DOMAIN e.returned : LET P == PolyPts(rc) IN
                            IF e.returned[k].none THEN P = {} ELSE e.returned[k].x \in ArgMax(rc.objectives[k], P))
           \* (the encoder's own reduction may drop columns - and is not solution preserving, observation O10 -: with try_reduce_before only
           \* the alignment clauses judge)
           \cup QFail("cols_cover_leaves", e.reduced \/ lids \subseteq ColIds(rc.cols))
           \cup QFail("model_true", (lids \subseteq ColIds(rc.cols) /\ e.solver = "exact" /\ e.enum /\ ~IsAtom(m) /\ WellDefined(m) /\ NoPrefixed(m) /\ NoByRef(m) /\ Safe(m)) =>
                            \A k \in DOMAIN e.returned : e.returned[k].none \/
                                 Pt(m, [ i \in lids |-> e.returned[k].x[CHOOSE j \in DOMAIN rc.cols : rc.cols[j].id = i] ]) = 1))

PrioOpNames == {"compress", "select", "solve"}
PrioVerdict(e) ==
  CASE e.op = "compress" -> EvCompress(e)
    [] e.op = "select"   -> EvSelect(e)
    [] e.op = "solve"    -> EvSolve(e)
    [] OTHER -> {"unknown_op"}
=============================================================================
