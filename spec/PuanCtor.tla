----------------------------- MODULE PuanCtor -----------------------------
(***************************************************************************)
(* The library's constructors as specified: a RECIPE says which            *)
(* constructor is applied to which arguments with which id option; Mk      *)
(* expands it to the Node the constructor must return; TF is the           *)
(* documented truth function of the same recipe (C04).  Pure module.       *)
(*   leaf recipe      [c |-> "leaf", id, lo, hi]                           *)
(*   compound recipe  [c |-> class name, a |-> <<recipes>>, id |-> "" for  *)
(*                     a generated id, v |-> value, s |-> sign argument]   *)
(***************************************************************************)
EXTENDS PuanModel, SequencesExt

(* ---- constructors as specified ------------------------------------------ *)
IsLeafR(r) == r.c = "leaf"
DefaultSign(v) == IF v > 0 THEN 1 ELSE -1
\* generated id: injective in (child ids, value, sign argument); see DESIGN 2.1
GenIdSet(kids, v, sarg) == "VAR#" \o ToString(KidIds([kids |-> kids])) \o "#" \o ToString(v) \o "#" \o SignStr(sarg)
MkAtLeast(v, kids, id, sarg, cls) ==
  Comp(IF id = "" THEN GenIdSet(kids, v, sarg) ELSE id, 0, 1,
       IF sarg = 0 THEN DefaultSign(v) ELSE sarg, v, kids, id = "", cls)
NegS(n) == LET g == Neg(n) IN IF n.gen THEN [g EXCEPT !.id = GenIdSet(n.kids, 1 - n.value, -n.sign)] ELSE g

(* configurator connectives: a default restructures Any(d, rest...) into Any(d, Any(rest...)) and tags  *)
(* the non-default branch with priority -2 (it must cost more than any number of plain selections)       *)
WithPrio(m, p) == [m EXCEPT !.prio = p]
WithDflt(m, d) == [m EXCEPT !.dflt = IF d = "" THEN <<>> ELSE <<d>>]
\* (an option named twice stays twice, like in the library: such a group does not pass validation and is outside every domain)
CcAny(ks, d, id) ==
  \* (a default is an ITEM: an option that is a sub-proposition is never treated as the default, although it may be named as one -
  \* observation O13; the group then is a plain Any that only records the name)
  LET dk   == SelectSeq(ks, LAMBDA m : m.id = d /\ IsAtom(m))
      rest == SelectSeq(ks, LAMBDA m : ~(m.id = d /\ IsAtom(m)))
  IN IF d # "" /\ Len(ks) > 1 /\ dk # <<>> /\ rest # <<>>
     THEN WithDflt(MkAtLeast(1, dk \o << WithPrio(MkAtLeast(1, rest, "", 0, "Any"), -2) >>, id, 0, "Any"), d)
     ELSE WithDflt(MkAtLeast(1, ks, id, 0, "Any"), d)
CcXor(ks, d, id) ==
  LET al == MkAtLeast(1, ks, "", 0, "AtLeast")
      am == MkAtLeast(-1, ks, "", -1, "AtMost")
      al2 == IF d = "" THEN al ELSE [CcAny(ks, d, al.id) EXCEPT !.gen = TRUE]
  IN WithDflt(MkAtLeast(2, << al2, am >>, id, 0, "Xor"), d)

\* a compound may be pre-fixed by passing a variable with constant bounds (recipe field f: -1 = free, 0 / 1 = fixed)
PreFix(m, f) == IF f = -1 THEN m ELSE [m EXCEPT !.lo = f, !.hi = f]
RECURSIVE Mk0(_)
RECURSIVE Mk(_)
Mk(r) == IF IsLeafR(r) THEN Mk0(r) ELSE PreFix(Mk0(r), r.f)
Mk0(r) ==
  IF IsLeafR(r) THEN Atom(r.id, r.lo, r.hi)
  ELSE LET ks == [ i \in DOMAIN r.a |-> Mk(r.a[i]) ]
           wrap(m) == IF IsAtom(m) THEN MkAtLeast(1, <<m>>, "", 0, "All") ELSE m
       IN CASE r.c = "AtLeast" -> MkAtLeast(r.v, ks, r.id, r.s, "AtLeast")
            [] r.c = "AtMost"  -> MkAtLeast(-r.v, ks, r.id, -1, "AtMost")
            [] r.c = "All"     -> MkAtLeast(Len(ks), ks, r.id, 0, "All")
            [] r.c = "Any"     -> MkAtLeast(1, ks, r.id, 0, "Any")
            [] r.c = "Xor"     -> MkAtLeast(2, << MkAtLeast(1, ks, "", 0, "AtLeast"),
                                                   MkAtLeast(-1, ks, "", -1, "AtMost") >>, r.id, 0, "Xor")
            [] r.c = "XNor"    -> MkAtLeast(1, << NegS(MkAtLeast(1, ks, "", 0, "AtLeast")),
                                                   NegS(MkAtLeast(-1, ks, "", -1, "AtMost")) >>, r.id, 0, "XNor")
            [] r.c = "Imply"   -> MkAtLeast(1, << NegS(wrap(ks[1])), ks[2] >>, r.id, 0, "Imply")
            [] r.c = "Not"     -> NegS(wrap(ks[1]))
            [] r.c = "ccAny"   -> CcAny(ks, r.d, r.id)
            [] r.c = "ccXor"   -> CcXor(ks, r.d, r.id)
            [] r.c = "Cfg"     -> MkAtLeast(Len(ks), ks, r.id, 0, "StingyConfigurator")

(* ---- documented truth functions over child truth values (C04) ------------ *)
RECURSIVE TF(_, _)
TF(r, a) ==
  IF IsLeafR(r) THEN a[r.id]
  ELSE LET t == [ i \in DOMAIN r.a |-> TF(r.a[i], a) ]
           cnt == SumSeq(t)
       IN CASE r.c = "AtLeast" -> IF cnt >= r.v THEN 1 ELSE 0          \* documented for value >= 1, default sign
            [] r.c = "AtMost"  -> IF cnt <= r.v THEN 1 ELSE 0
            [] r.c = "All"     -> IF cnt = Len(t) THEN 1 ELSE 0
            [] r.c = "Any"     -> IF cnt >= 1 THEN 1 ELSE 0
            [] r.c = "Xor"     -> IF cnt = 1 THEN 1 ELSE 0
            [] r.c = "XNor"    -> IF cnt # 1 THEN 1 ELSE 0
            [] r.c = "Imply"   -> IF t[1] = 0 \/ t[2] = 1 THEN 1 ELSE 0
            [] r.c = "Not"     -> 1 - t[1]
            [] r.c = "ccAny"   -> IF cnt >= 1 THEN 1 ELSE 0
            [] r.c = "ccXor"   -> IF cnt = 1 THEN 1 ELSE 0
            [] r.c = "Cfg"     -> IF cnt = Len(t) THEN 1 ELSE 0
RECURSIVE Documented(_)
Documented(r) == IsLeafR(r) \/ ( /\ \A i \in DOMAIN r.a : Documented(r.a[i])
                                 /\ r.f = -1
                                 /\ (r.c = "AtLeast" => r.v >= 1 /\ r.s \in {0, 1})
                                 /\ (r.c = "AtMost" => r.v >= 0) )


(* recipes whose result must be in solver-safe form: negative nodes (AtMost, Xor's AtMost, AtLeast *)
(* with a negative sign) only directly over leaves; XNor / Imply / Not push negation inwards.       *)
EffSign(r) == IF r.c = "AtLeast" THEN (IF r.s = 0 THEN DefaultSign(r.v) ELSE r.s)
              ELSE IF r.c = "AtMost" THEN -1 ELSE 1
RECURSIVE ExpectSafe(_)
ExpectSafe(r) ==
  IsLeafR(r) \/ ( /\ \A i \in DOMAIN r.a : ExpectSafe(r.a[i])
                  /\ (r.c \in {"AtMost", "Xor", "ccXor"} \/ EffSign(r) = -1) => \A i \in DOMAIN r.a : IsLeafR(r.a[i]) )
RECURSIVE RLeafIds(_)
RLeafIds(r) == IF IsLeafR(r) THEN {r.id} ELSE UNION { RLeafIds(r.a[i]) : i \in DOMAIN r.a }
RECURSIVE RBool(_)
RBool(r) == IF IsLeafR(r) THEN (r.lo >= 0 /\ r.hi <= 1) ELSE \A i \in DOMAIN r.a : RBool(r.a[i])
\* the ids the caller gave (every other compound id is generated by the library)
RECURSIVE RExplicit(_)
RExplicit(r) == IF IsLeafR(r) THEN {} ELSE (IF r.id = "" THEN {} ELSE {r.id}) \cup UNION { RExplicit(r.a[i]) : i \in DOMAIN r.a }
=============================================================================
