----------------------------- MODULE PuanExtra -----------------------------
(***************************************************************************)
(* Behaviour beyond the twenty listed properties (growth of the            *)
(* specification, DESIGN section 10): short forms, id listings,            *)
(* reduced polyhedra, row distributions, neighbourhoods, 2-D reduction     *)
(* and ranking helpers, dictionary helpers, constructor validation.        *)
(* Pure operators and trace verdicts; mismatches are reported as           *)
(* EXTRA-BEHAVIOUR notes by ./check EXTRA, they are not alarms of a        *)
(* listed property.                                                        *)
(***************************************************************************)
EXTENDS PuanPrioOps, PuanPolyOps

XFail(c, ok) == IF ok THEN {} ELSE {c}

(* ---- short form: <<id, sign, child ids, -value, <<lo, hi>>>> ---------------- *)
ShortOf(n) == IF IsAtom(n) THEN <<n.id, 1, <<>>, 0, <<n.lo, n.hi>>>>
              ELSE <<n.id, n.sign, [ i \in DOMAIN n.kids |-> n.kids[i].id ], -n.value, <<n.lo, n.hi>>>>
\* from_short rebuilds one level: the children become boolean leaves named by the ids
FromShortOK(sh, r) ==
  IF sh[3] = <<>> THEN IsAtom(r) /\ r.id = sh[1] /\ <<r.lo, r.hi>> = sh[5]
  ELSE /\ ~IsAtom(r) /\ r.id = sh[1] /\ r.sign = sh[2] /\ r.value = -sh[4] /\ <<r.lo, r.hi>> = sh[5]
       /\ { r.kids[i].id : i \in DOMAIN r.kids } = { sh[3][i] : i \in DOMAIN sh[3] }
       /\ \A i \in DOMAIN r.kids : IsAtom(r.kids[i]) /\ r.kids[i].lo = 0 /\ r.kids[i].hi = 1
EvShort(e) ==
  XFail("short_of", e.short = ShortOf(e.model))
  \cup XFail("from_short", FromShortOK(e.short, e.back))
  \cup XFail("variables", { e.variables[i] : i \in DOMAIN e.variables } = Ids(e.model) /\ Len(e.variables) = Cardinality(Ids(e.model)))
  \cup XFail("atomic_compound", IsAtom(e.model) \/
            ( /\ e.atomic = [ i \in DOMAIN SelectSeq(e.model.kids, IsAtom) |-> SelectSeq(e.model.kids, IsAtom)[i].id ]
              /\ e.compound = [ i \in DOMAIN SelectSeq(e.model.kids, LAMBDA m : ~IsAtom(m)) |-> SelectSeq(e.model.kids, LAMBDA m : ~IsAtom(m))[i].id ] ))

(* ---- to_ge_polyhedron(reduced=True): over the leaf columns that remain, the same leaf configurations ---------- *)
EvReducedPoly(e) ==
  LET m == e.model
      L == { e.cols[j].id : j \in { j \in DOMAIN e.cols : e.cols[j].id \in LeafIds(m) } }
      sol == { x \in RangeProduct(ColIds(e.cols), [ i \in ColIds(e.cols) |-> e.cols[CHOOSE j \in DOMAIN e.cols : e.cols[j].id = i].lo ],
                                               [ i \in ColIds(e.cols) |-> e.cols[CHOOSE j \in DOMAIN e.cols : e.cols[j].id = i].hi ]) : MSat(e.rows, e.cols, x) }
  IN IF ~(~IsAtom(m) /\ WellDefined(m) /\ NoPrefixed(m) /\ NoByRef(m) /\ Safe(m)) THEN {"outside_domain"}
     ELSE XFail("reduced_cols", ColIds(e.cols) \subseteq Ids(m))
          \cup XFail("reduced_projection", (ColIds(e.cols) \subseteq Ids(m)) =>
                        { Restr(x, L) : x \in sol } = { Restr(a, L) : a \in { a \in Box(m) : Pt(m, a) = 1 } })

(* ---- row_distribution / row_stretch_int -------------------------------------------------------------------------- *)
\* values of  a.x - b  over the box of the columns the row mentions, with their multiplicities, for every integer between min and max
RowValues(r, cols) == LET nz == { j \in DOMAIN cols : r.a[j] # 0 } IN
   { [ j \in nz |-> x[j] ] : x \in PBox(cols) }
RowVal(r, f) == SumSeq([ j \in DOMAIN r.a |-> IF j \in DOMAIN f THEN r.a[j] * f[j] ELSE 0 ]) - r.b
DistSpec(r, cols) == LET V == RowValues(r, cols)
                         vals == { RowVal(r, f) : f \in V }
                     IN [ k \in 1..(SetMax(vals) - SetMin(vals) + 1) |->
                            << SetMin(vals) + k - 1, Cardinality({ f \in V : RowVal(r, f) = SetMin(vals) + k - 1 }) >> ]
EvRowDist(e) ==
  LET d == DistSpec(e.rows[e.row], e.cols) IN
  XFail("row_distribution", e.dist = d)
  \cup XFail("row_stretch_int", e.stretch_int = Cardinality({ k \in DOMAIN d : d[k][2] # 0 }) - (d[Len(d)][1] - d[1][1]) - 1)

(* ---- row_stretch: combinations of the columns a row mentions per value spot of the row, as a fraction ------------- *)
EvRowStretch(e) ==
  XFail("row_stretch", /\ Len(e.stretch) = Len(e.rows)
                       /\ \A i \in DOMAIN e.rows : LET n == NCombFormula(e.rows[i], e.cols)
                                                        d == RowUb(e.rows[i], e.cols) - RowLb(e.rows[i], e.cols) + 1
                                                    IN e.stretch[i][1] * d = e.stretch[i][2] * n)

(* ---- neglect_columns: fix the neglected columns at 1 and fold them into the support vector ------------------------- *)
NeglectRow(r, mask) == [ b |-> r.b - SumSeq([ j \in DOMAIN r.a |-> IF mask[j] > 0 THEN r.a[j] ELSE 0 ]),
                         a |-> [ j \in DOMAIN r.a |-> IF mask[j] > 0 THEN 0 ELSE r.a[j] ] ]
Neglect(rows, mask) == [ i \in DOMAIN rows |-> NeglectRow(rows[i], mask) ]
\* what the operation means: a point satisfies the result iff the point with every neglected column set to 1 satisfies the original
NeglectMeaning(rows, mask, x) ==
  (\A i \in DOMAIN rows : RowOk(NeglectRow(rows[i], mask), x)) <=> (\A i \in DOMAIN rows : RowOk(rows[i], [ j \in DOMAIN x |-> IF mask[j] > 0 THEN 1 ELSE x[j] ]))
EvNeglect(e) ==
  XFail("neglect_exact", e.res = Neglect(e.rows, e.mask))
  \cup XFail("neglect_meaning", Len(e.res) = Len(e.rows) => \A x \in PBox(e.cols) :
                 (\A i \in DOMAIN e.res : RowOk(e.res[i], x)) <=> (\A i \in DOMAIN e.rows : RowOk(e.rows[i], [ j \in DOMAIN x |-> IF e.mask[j] > 0 THEN 1 ELSE x[j] ])))
  \* observation O11 (named deviation): an int64 receiver does not stay as it was, its neglected columns are zeroed too while its
  \* support vector is not touched; a receiver of another dtype is converted first and stays. Nothing else may happen to it.
  \cup XFail("neglect_receiver", e.recv_after = e.rows
                                  \/ e.recv_after = [ i \in DOMAIN e.rows |-> [ b |-> e.rows[i].b, a |-> NeglectRow(e.rows[i], e.mask).a ] ])

(* ---- neglectable_columns: the documented case analysis, transcribed -------------------------------------------------- *)
PadTo(p, n) == [ j \in 1..n |-> IF j <= Len(p) THEN p[j] ELSE 0 ]
Neglectable(A, n, pats) ==
  LET P == [ k \in DOMAIN pats |-> PadTo(pats[k], n) ]
      notIn == { j \in 1..n : \A k \in DOMAIN P : P[k][j] = 0 }                       \* columns outside every pattern: never neglected
      B == [ i \in DOMAIN A |-> [ j \in 1..n |-> IF j \in notIn \/ A[i][j] = 0 THEN 0 ELSE 1 ] ]
      missing == { k \in DOMAIN P : \A i \in DOMAIN B : B[i] # P[k] }                 \* patterns that are not rows of the polyhedron
      common == { j \in 1..n : \A i \in DOMAIN B : B[i][j] = 1 }
  IN IF missing = {} THEN [ j \in 1..n |-> IF j \in notIn THEN 0 ELSE 1 ]
     ELSE IF ~ \E k \in missing : \A j \in common : P[k][j] = 1 THEN [ j \in 1..n |-> IF j \in common \cup notIn THEN 0 ELSE 1 ]
     ELSE LET free == { j \in 1..n : (\A k \in missing : P[k][j] = 0) /\ j \notin notIn }
              flag == \A i \in DOMAIN B : \E j \in free : B[i][j] # 0
          IN [ j \in 1..n |-> IF flag /\ (\E k \in missing : P[k][j] # 0) THEN 1 ELSE 0 ]
\* the three documented examples
ASSUME Neglectable(<< <<-1,-1,0,0,0,1>>, <<-1,0,-1,0,0,1>> >>, 6, << <<1,1,0>>, <<0,1,1>>, <<1,0,1>> >>) = <<0,1,1,0,0,0>>
ASSUME Neglectable(<< <<-1,-1,0,0,0,1>>, <<-1,0,-1,0,0,1>> >>, 6, << <<1,1,0>>, <<1,0,1>>, <<1,0,0>> >>) = <<1,0,0,0,0,0>>
ASSUME Neglectable(<< <<-1,-1,0,0,0,1>>, <<-1,0,-1,0,0,1>>, <<-1,0,0,0,0,1>> >>, 6, << <<1,1,0>>, <<1,0,1>>, <<1,0,0>> >>) = <<1,1,1,0,0,0>>
EvNeglectable(e) ==
  XFail("neglectable", e.res = Neglectable([ i \in DOMAIN e.rows |-> e.rows[i].a ], Len(e.cols), e.patterns))

(* ---- to_text: one line per distinct node, the short form of the node, sorted ---------------------------------------- *)
RECURSIVE BytesLeq(_, _)
BytesLeq(x, y) == IF x = <<>> THEN TRUE ELSE IF y = <<>> THEN FALSE
                  ELSE IF x[1] # y[1] THEN x[1] < y[1] ELSE BytesLeq(Tail(x), Tail(y))
EvToText(e) ==
  XFail("text_lines", { e.lines[i] : i \in DOMAIN e.lines } = { ShortOf(n) : n \in Flat(e.model) })
  \cup XFail("text_no_repeats", Len(e.lines) = Cardinality({ e.lines[i] : i \in DOMAIN e.lines }))
  \cup XFail("text_sorted", \A i \in 1..(Len(e.raw) - 1) : BytesLeq(e.raw[i], e.raw[i + 1]))

(* ---- neighbourhoods of a vector ------------------------------------------------------------------------------------- *)
Unit(n, j, d) == [ i \in 1..n |-> IF i = j THEN d ELSE 0 ]
AddVec(x, y) == [ i \in DOMAIN x |-> x[i] + y[i] ]
NbAdd(x, delta) == [ j \in DOMAIN x |-> AddVec(x, Unit(Len(x), j, delta[j])) ]
NbSub(x, delta) == [ j \in DOMAIN x |-> AddVec(x, Unit(Len(x), j, -delta[j])) ]
EvNeighbours(e) ==
  XFail("nb_addition", e.add = NbAdd(e.x, e.delta))
  \cup XFail("nb_subtraction", e.sub = NbSub(e.x, e.delta))
  \cup XFail("nb_all", e.all = NbAdd(e.x, e.delta) \o NbSub(e.x, e.delta))
\* boolean: flip / switch on / switch off one position; results equal to the input are left out
Flip(x, j) == [ i \in DOMAIN x |-> IF i = j THEN 1 - x[i] ELSE x[i] ]
SetAt(x, j, v) == [ i \in DOMAIN x |-> IF i = j THEN v ELSE x[i] ]
Drop(s, x) == SelectSeq(s, LAMBDA y : y # x)
EvBoolNeighbours(e) ==
  XFail("nb_on_off", e.on_off = Drop([ j \in DOMAIN e.x |-> Flip(e.x, j) ], e.x))
  \cup XFail("nb_on", e.on = Drop([ j \in DOMAIN e.x |-> SetAt(e.x, j, 1) ], e.x))
  \cup XFail("nb_off", e.off = Drop([ j \in DOMAIN e.x |-> SetAt(e.x, j, 0) ], e.x))

(* ---- reduce2d / ranking ------------------------------------------------------------------------------------------------ *)
Reduce2dFirst(X) == [ i \in DOMAIN X |-> [ j \in Cols(X) |-> IF j \in Live(X) /\ i = SetMin(NzRows(X, j)) THEN X[i][j] ELSE 0 ] ]
Reduce2dLast(X)  == [ i \in DOMAIN X |-> [ j \in Cols(X) |-> IF j \in Live(X) /\ i = LRow(X, j) THEN X[i][j] ELSE 0 ] ]
\* dense rank of the values; the smallest value gets 1 if it is positive, else 0
RankingSpec(v) == LET vals == { v[i] : i \in DOMAIN v }
                      start == IF SetMin(vals) > 0 THEN 1 ELSE 0
                  IN [ i \in DOMAIN v |-> start + Cardinality({ w \in vals : w < v[i] }) ]
EvReduce2d(e) ==
  XFail("reduce2d_first", e.first0 = Reduce2dFirst(e.x) /\ e.first1 = Transpose(Reduce2dFirst(Transpose(e.x))))
  \cup XFail("reduce2d_last", e.last0 = Reduce2dLast(e.x) /\ e.last1 = Transpose(Reduce2dLast(Transpose(e.x))))
  \cup XFail("ranking", e.ranking = [ i \in DOMAIN e.x |-> RankingSpec(e.x[i]) ] /\ e.rank1 = RankingSpec(e.x[1]))
  \cup XFail("helpers_pure", e.x_after = e.x /\ e.x1_after = e.x[1])

(* ---- dictionary helpers, constructor validation, orderings --------------------------------------------------------- *)
EvOrGet(e) ==
  LET d == PairsFn(e.d)
      hits == { i \in DOMAIN e.keys : e.keys[i] \in DOMAIN d }
  IN XFail("or_get", IF hits # {} THEN e.res = <<"value", d[e.keys[SetMin(hits)]]>>
                     ELSE IF e.has_default THEN e.res = <<"value", e.default>> ELSE e.res = <<"raised", 0>>)
     \cup XFail("or_replace", IF hits # {} THEN PairsFn(e.replaced) = [ k \in DOMAIN d |-> IF k = e.keys[SetMin(hits)] THEN e.value ELSE d[k] ]
                              ELSE e.replaced_raised)
EvCtor(e) ==
  XFail("bounds_order", e.bounds_raised <=> (e.lo > e.hi))
  \cup XFail("bool_dtype", e.bool_raised <=> ~(e.lo = 0 /\ e.hi = 1))
  \cup XFail("compound_bounds", e.compound_raised <=> ~(<<e.lo, e.hi>> \in {<<0, 0>>, <<0, 1>>, <<1, 1>>}))
\* from_strings / from_mixed return the variables sorted by id (here: ids are given with their sort position)
EvSorted(e) == XFail("sorted_by_id", \A i \in 1..(Len(e.pos) - 1) : e.pos[i] <= e.pos[i + 1])
               \cup XFail("same_ids", { e.out[i] : i \in DOMAIN e.out } = { e.inp[i] : i \in DOMAIN e.inp } /\ Len(e.out) = Len(e.inp))

ExtraOpNames == {"x_short", "x_reduced_poly", "x_row_dist", "x_neighbours", "x_bool_neighbours", "x_reduce2d", "x_or_get", "x_ctor", "x_sorted",
                 "x_row_stretch", "x_neglect", "x_neglectable", "x_to_text"}
ExtraVerdict(e) ==
  CASE e.op = "x_short" -> EvShort(e)
    [] e.op = "x_reduced_poly" -> EvReducedPoly(e)
    [] e.op = "x_row_dist" -> EvRowDist(e)
    [] e.op = "x_neighbours" -> EvNeighbours(e)
    [] e.op = "x_bool_neighbours" -> EvBoolNeighbours(e)
    [] e.op = "x_reduce2d" -> EvReduce2d(e)
    [] e.op = "x_or_get" -> EvOrGet(e)
    [] e.op = "x_ctor" -> EvCtor(e)
    [] e.op = "x_sorted" -> EvSorted(e)
    [] e.op = "x_row_stretch" -> EvRowStretch(e)
    [] e.op = "x_neglect" -> EvNeglect(e)
    [] e.op = "x_neglectable" -> EvNeglectable(e)
    [] e.op = "x_to_text" -> EvToText(e)
    [] OTHER -> {"unknown_op"}
=============================================================================
