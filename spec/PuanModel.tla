----------------------------- MODULE PuanModel -----------------------------
(***************************************************************************)
(* Pure data model and semantic operators for puan.logic.plog              *)
(* propositions.  No variables: this module is EXTENDed by the builder     *)
(* machine (PuanBuild), the API machine (PuanAPI) and the trace            *)
(* specification (PuanTrace).                                              *)
(*                                                                         *)
(* A Node is either                                                        *)
(*   [k |-> "a", id, lo, hi]                      a leaf variable          *)
(*   [k |-> "c", id, lo, hi, sign, value, kids,   a compound proposition   *)
(*    gen, cls, prio, dflt]                       sign*SUM(kids) >= value  *)
(* kids is a sequence of Nodes (tree shaped: every occurrence of an id     *)
(* carries its own definition, exactly like the Python objects).           *)
(***************************************************************************)
EXTENDS Integers, Sequences, FiniteSets, TLC

Atom(id, lo, hi) == [k |-> "a", id |-> id, lo |-> lo, hi |-> hi]
Comp(id, lo, hi, s, v, kids, gen, cls) ==
  [k |-> "c", id |-> id, lo |-> lo, hi |-> hi, sign |-> s, value |-> v,
   kids |-> kids, gen |-> gen, cls |-> cls, prio |-> -1, dflt |-> <<>>]

IsAtom(n) == n.k = "a"
Rng(s) == { s[i] : i \in DOMAIN s }

RECURSIVE SumSeq(_)
SumSeq(s) == IF s = <<>> THEN 0 ELSE Head(s) + SumSeq(Tail(s))
Min2(a, b) == IF a <= b THEN a ELSE b
Max2(a, b) == IF a >= b THEN a ELSE b
SetMin(S) == CHOOSE x \in S : \A y \in S : x <= y
SetMax(S) == CHOOSE x \in S : \A y \in S : x >= y

RECURSIVE Flat(_)
Flat(n) == IF IsAtom(n) THEN {n} ELSE {n} \cup UNION { Flat(n.kids[i]) : i \in DOMAIN n.kids }
Atoms(n)   == { m \in Flat(n) : IsAtom(m) }
Comps(n)   == { m \in Flat(n) : ~IsAtom(m) }
Ids(n)     == { m.id : m \in Flat(n) }
LeafIds(n) == { m.id : m \in Atoms(n) }
CompIds(n) == { m.id : m \in Comps(n) }
KidIds(m)  == { m.kids[i].id : i \in DOMAIN m.kids }
RECURSIVE Depth(_)
Depth(n) == IF IsAtom(n) \/ n.kids = <<>> THEN 0
            ELSE 1 + SetMax({ Depth(n.kids[i]) : i \in DOMAIN n.kids })

(* ---- dictionaries: functions from a set of ids to <<lo,hi>> or to Int --- *)
Has(I, id) == id \in DOMAIN I
Const(b)   == b[1] = b[2]
EmptyFn    == [ i \in {} |-> 0 ]
\* a JSON array of [key, value] pairs as a function (last pair wins, like a Python dict built from items)
PairsFn(ps) == [ key \in { ps[i][1] : i \in DOMAIN ps } |->
                   ps[SetMax({ i \in DOMAIN ps : ps[i][1] = key })][2] ]
AsIv(a)    == [ i \in DOMAIN a |-> <<a[i], a[i]>> ]
Merge(D, I) == [ i \in DOMAIN D \cup DOMAIN I |-> IF i \in DOMAIN D THEN D[i] ELSE I[i] ]
Restr(f, S) == [ i \in S \cap DOMAIN f |-> f[i] ]
InIv(v, b) == b[1] <= v /\ v <= b[2]

(* ---- interval evaluation: the meaning of evaluate / evaluate_propositions *)
(* A node named in the interpretation, or with constant own bounds, takes   *)
(* that value if it is a constant; otherwise its bounds come from the       *)
(* children's bounds (flipped for a negative sign).                         *)
RECURSIVE Iv(_, _)
Iv(n, I) ==
  IF IsAtom(n) THEN (IF Has(I, n.id) THEN I[n.id] ELSE <<n.lo, n.hi>>)
  ELSE LET own == IF Has(I, n.id) THEN I[n.id] ELSE <<n.lo, n.hi>> IN
       IF Const(own) THEN own
       ELSE LET kb == [ i \in DOMAIN n.kids |-> Iv(n.kids[i], I) ]
                lo == SumSeq([ i \in DOMAIN kb |-> IF n.sign = 1 THEN kb[i][1] ELSE -kb[i][2] ])
                hi == SumSeq([ i \in DOMAIN kb |-> IF n.sign = 1 THEN kb[i][2] ELSE -kb[i][1] ])
            IN << IF lo >= n.value THEN 1 ELSE 0, IF hi >= n.value THEN 1 ELSE 0 >>

\* nodes that evaluate_propositions may cut off: everything strictly below a fixed compound
RECURSIVE Visible(_, _)
Visible(n, I) ==
  IF IsAtom(n) THEN {n}
  ELSE LET own == IF Has(I, n.id) THEN I[n.id] ELSE <<n.lo, n.hi>> IN
       IF Const(own) THEN {n}
       ELSE {n} \cup UNION { Visible(n.kids[i], I) : i \in DOMAIN n.kids }

(* point evaluation under a total leaf assignment a : LeafIds -> Int; a     *)
(* compound pre-fixed by its own bounds keeps that constant.                *)
RECURSIVE Pt(_, _)
Pt(n, a) ==
  IF IsAtom(n) THEN a[n.id]
  ELSE IF n.lo = n.hi THEN n.lo
  ELSE IF n.sign * SumSeq([ i \in DOMAIN n.kids |-> Pt(n.kids[i], a) ]) >= n.value THEN 1 ELSE 0

\* bounds of a leaf id (well defined for validated models)
LeafLo(n, id) == (CHOOSE m \in Atoms(n) : m.id = id).lo
LeafHi(n, id) == (CHOOSE m \in Atoms(n) : m.id = id).hi
\* the product of integer ranges lo[i]..hi[i] over a finite set of keys, as a set of functions
RECURSIVE RangeProduct(_, _, _)
RangeProduct(S, lo, hi) ==
  IF S = {} THEN { EmptyFn }
  ELSE LET i == CHOOSE i \in S : TRUE
       IN { (i :> v) @@ f : v \in lo[i]..hi[i], f \in RangeProduct(S \ {i}, lo, hi) }
\* all total leaf assignments within bounds
Box(n) == LET ids == LeafIds(n) IN
          RangeProduct(ids, [ i \in ids |-> LeafLo(n, i) ], [ i \in ids |-> LeafHi(n, i) ])
BoxSize(n) == LET ids == LeafIds(n) IN
              IF ids = {} THEN 1
              ELSE LET RECURSIVE P(_)
                       P(S) == IF S = {} THEN 1 ELSE LET i == CHOOSE i \in S : TRUE IN
                                 (LeafHi(n, i) - LeafLo(n, i) + 1) * P(S \ {i})
                   IN P(ids)
NodeOf(n, id) == CHOOSE m \in Flat(n) : m.id = id
\* the assignment extended with every compound's value
Ext(n, a) == [ i \in Ids(n) |-> Pt(NodeOf(n, i), a) ]

(* ---- classes of models ---------------------------------------------------*)
BoolAtom(m)   == IsAtom(m) /\ m.lo >= 0 /\ m.hi <= 1
NonNegAtom(m) == IsAtom(m) /\ m.lo >= 0
BoolLeaves(n) == \A m \in Atoms(n) : BoolAtom(m)
NoPrefixed(n) == \A m \in Comps(n) : m.lo = 0 /\ m.hi = 1
\* no id is used both as a leaf and as a sub-proposition ("by-reference" models, DESIGN O1)
NoByRef(n) == LeafIds(n) \cap CompIds(n) = {}
\* solver-safe form: no compound child under a negatively signed parent
Safe(n) == \A m \in Comps(n) : m.sign = -1 => \A i \in DOMAIN m.kids : IsAtom(m.kids[i])

(* ---- well-definedness (C10) ---------------------------------------------- *)
NoDupKids(n) == \A m \in Comps(n) : Cardinality(KidIds(m)) = Len(m.kids)
SingleDef(n) == \A x, y \in Flat(n) : x.id = y.id =>
                   /\ x.lo = y.lo /\ x.hi = y.hi
                   /\ (~IsAtom(x) /\ ~IsAtom(y)) => (x.sign = y.sign /\ x.value = y.value /\ KidIds(x) = KidIds(y))
Edges(n) == UNION { { <<m.id, c>> : c \in KidIds(m) } : m \in Comps(n) }
RECURSIVE Reach(_, _, _)
Reach(E, S, k) == IF k = 0 THEN S ELSE Reach(E, S \cup { e[2] : e \in { e \in E : e[1] \in S } }, k - 1)
Acyclic(n) == LET E == Edges(n) ids == Ids(n) IN
              \A i \in ids : i \notin Reach(E, { e[2] : e \in { e \in E : e[1] = i } }, Cardinality(ids))
WellDefined(n) == Acyclic(n) /\ NoDupKids(n) /\ SingleDef(n)
\* tree-shaped with pairwise distinct ids: as many distinct ids as node occurrences
RECURSIVE Occ(_)
Occ(n) == IF IsAtom(n) THEN 1 ELSE 1 + SumSeq([ i \in DOMAIN n.kids |-> Occ(n.kids[i]) ])
TreeDistinct(n) == Cardinality(Ids(n)) = Occ(n)
\* merely shares identical sub-propositions: equal ids => equal nodes, and no node lists a child twice
SharesIdenticalOnly(n) == /\ \A x, y \in Flat(n) : x.id = y.id => x = y
                          /\ NoDupKids(n)

(* ---- negation, as designed (exact complement; inward push where exact) --- *)
SignStr(s) == IF s = 0 THEN "None" ELSE IF s = 1 THEN "1" ELSE "-1"
RECURSIVE ConcatIds(_)
ConcatIds(kids) == IF kids = <<>> THEN "" ELSE Head(kids).id \o ConcatIds(Tail(kids))
\* the id generator concatenates child ids, value and the sign ARGUMENT without separators
GenId(kids, v, sarg) == "VAR#" \o ConcatIds(kids) \o ToString(v) \o SignStr(sarg)

RECURSIVE Neg(_)
Neg(n) ==
  LET nid == IF n.gen THEN GenId(n.kids, 1 - n.value, -n.sign) ELSE n.id
      flipped == [n EXCEPT !.id = nid, !.sign = -n.sign, !.value = 1 - n.value, !.cls = "AtLeast"]
      at == SelectSeq(n.kids, IsAtom)
      co == SelectSeq(n.kids, LAMBDA m : ~IsAtom(m))
      push(cs) == [flipped EXCEPT !.sign = 1, !.value = 1 - n.value + Len(cs),
                                  !.kids = [ i \in DOMAIN cs |-> Neg(cs[i]) ]]
  IN IF n.sign = -1 \/ co = <<>> THEN flipped
     ELSE IF at = <<>> THEN push(co)
     ELSE IF n.value = 1 /\ \A i \in DOMAIN at : NonNegAtom(at[i]) THEN
        push(Append(co, Comp(GenId(at, 1, 1), 0, 1, 1, 1, at, TRUE, "AtLeast")))
     ELSE IF \A i \in DOMAIN at : BoolAtom(at[i]) THEN
        push(co \o [ i \in DOMAIN at |-> Comp(GenId(<<at[i]>>, 1, 1), 0, 1, 1, 1, <<at[i]>>, TRUE, "AtLeast") ])
     ELSE flipped

(* ---- assume / reduce, mirroring the implementation's recursion ----------- *)
AsVar(n) == Atom(n.id, n.lo, n.hi)
KidBounds(kids, s) ==
  << SumSeq([ i \in DOMAIN kids |-> IF s = 1 THEN kids[i].lo ELSE -kids[i].hi ]),
     SumSeq([ i \in DOMAIN kids |-> IF s = 1 THEN kids[i].hi ELSE -kids[i].lo ]) >>

RECURSIVE Assm(_, _)
Assm(n, D) ==
  IF IsAtom(n) THEN (IF Has(D, n.id) THEN Atom(n.id, D[n.id][1], D[n.id][2]) ELSE n)
  ELSE LET own == IF Has(D, n.id) THEN D[n.id] ELSE <<n.lo, n.hi>> IN
       IF Const(own) THEN Atom(n.id, own[1], own[2])
       ELSE LET ak == [ i \in DOMAIN n.kids |-> Assm(n.kids[i], D) ]
                kb == KidBounds(ak, n.sign)
            IN [n EXCEPT !.lo = IF kb[1] >= n.value THEN 1 ELSE 0,
                         !.hi = IF kb[2] >= n.value THEN 1 ELSE 0,
                         !.kids = ak, !.cls = "AtLeast"]

RECURSIVE Red(_)
Red(n) ==
  IF IsAtom(n) THEN n
  ELSE IF n.lo = n.hi THEN AsVar(n)
  ELSE LET sub == [ i \in DOMAIN n.kids |-> Red(n.kids[i]) ]
           kb  == KidBounds(sub, n.sign)
           nlo == IF kb[1] >= n.value THEN 1 ELSE 0
           nhi == IF kb[2] >= n.value THEN 1 ELSE 0
           consts == SumSeq([ i \in DOMAIN sub |-> IF sub[i].lo = sub[i].hi THEN sub[i].lo ELSE 0 ])
       IN IF nlo = nhi THEN Atom(n.id, nlo, nhi)
          ELSE [n EXCEPT !.lo = nlo, !.hi = nhi, !.value = n.value - consts * n.sign,
                         !.kids = SelectSeq(sub, LAMBDA m : m.lo # m.hi), !.cls = "AtLeast"]

NoConstInside(r) == (IsAtom(r)) \/ \A m \in Flat(r) : m.lo # m.hi

(* ---- tautology / contradiction / equation bounds -------------------------- *)
\* exact attainable range of sign*SUM(kids) - value over the children's bound box
EqBounds(n) == LET kb == KidBounds(n.kids, n.sign) IN <<kb[1] - n.value, kb[2] - n.value>>
Taut(n)   == EqBounds(n)[1] >= 0
Contra(n) == EqBounds(n)[2] < 0
\* all valuations of the children within their own bounds (enumerated, for checking the above)
KidBox(n) == RangeProduct(DOMAIN n.kids, [ i \in DOMAIN n.kids |-> n.kids[i].lo ], [ i \in DOMAIN n.kids |-> n.kids[i].hi ])
KidSum(n, f) == n.sign * SumSeq([ i \in DOMAIN n.kids |-> f[i] ]) - n.value

(* ---- big-M encoding (one row per compound; top row asserted when active) -- *)
MinLhs(n) == KidBounds(n.kids, n.sign)[1]
\* a row is [b |-> Int, c |-> function id -> coefficient]
Row(n, top) == LET M == n.value - MinLhs(n)
                   base == [ i \in KidIds(n) |-> n.sign ]
               IN IF top THEN [b |-> n.value, c |-> base]
                  ELSE [b |-> n.value - M, c |-> [ i \in DOMAIN base \cup {n.id} |-> IF i = n.id THEN -M ELSE base[i] ]]
Rows(n, active) == { Row(m, active /\ m = n) : m \in Comps(n) }
RECURSIVE SumFn(_)
SumFn(f) == IF DOMAIN f = {} THEN 0
            ELSE LET x == CHOOSE y \in DOMAIN f : TRUE IN f[x] + SumFn([ i \in DOMAIN f \ {x} |-> f[i] ])
RowSat(r, x) == SumFn([ i \in DOMAIN r.c |-> r.c[i] * x[i] ]) >= r.b
Sat(P, x) == \A r \in P : RowSat(r, x)

(* ---- recorded matrices: rows = Seq([b, a : Seq(Int)]), cols = Seq([id, lo, hi]) *)
MRowSat(r, cols, x) == SumSeq([ j \in DOMAIN cols |-> r.a[j] * x[cols[j].id] ]) >= r.b
MSat(rows, cols, x) == \A i \in DOMAIN rows : MRowSat(rows[i], cols, x)
ColIds(cols) == { cols[j].id : j \in DOMAIN cols }
=============================================================================
