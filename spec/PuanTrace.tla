----------------------------- MODULE PuanTrace -----------------------------
(***************************************************************************)
(* Trace validation.  Every line of IOEnv.TRACE_FILE is one recorded call  *)
(* of the real implementation (see DESIGN Appendix A): operation, full     *)
(* arguments, projected result, and what the property's relation needs.    *)
(* One trace action per event kind; the action evaluates the clauses of    *)
(* the property's relation on the RECORDED data.  Verdicts are total: the  *)
(* trace position always advances, a failed clause is printed as           *)
(*   <<"REJECT", tid, {clauses}>>                                          *)
(* and a deviation that is a listed known finding as <<"KNOWN", tid, sig>>.*)
(***************************************************************************)
EXTENDS PuanExtra, Json, IOUtils

Trace == ndJsonDeserialize(IOEnv.TRACE_FILE)

VARIABLE l
vars == <<l>>

Fail(c, ok) == IF ok THEN {} ELSE {c}

(* ---- helpers on recorded data -------------------------------------------- *)
PointsComplete(model, pts) == { PairsFn(pts[i].asg) : i \in DOMAIN pts } = Box(model)
\* wide leaf ranges (16-bit): the box cannot be enumerated; the recorded points must be in-bounds total assignments and
\* must contain, for every leaf, its lower and upper bound
PointsCritical(model, pts) ==
  /\ \A i \in DOMAIN pts : LET a == PairsFn(pts[i].asg) IN
        DOMAIN a = LeafIds(model) /\ \A lf \in LeafIds(model) : LeafLo(model, lf) <= a[lf] /\ a[lf] <= LeafHi(model, lf)
  /\ \A lf \in LeafIds(model) : (\E i \in DOMAIN pts : PairsFn(pts[i].asg)[lf] = LeafLo(model, lf))
                                 /\ (\E i \in DOMAIN pts : PairsFn(pts[i].asg)[lf] = LeafHi(model, lf))
PointsOK(e) == IF e.wide THEN PointsCritical(e.model, e.points) ELSE PointsComplete(e.model, e.points)
IsConstIv(b) == b[1] = b[2]
Model(e) == e.model
Claim(m) == ~IsAtom(m) /\ WellDefined(m) /\ NoPrefixed(m) /\ NoByRef(m)

(* ---- C03: evaluate / evaluate_propositions on total interpretations ------ *)
\* one event per model, one point per interpretation (leaf values plus optional overrides of compound ids)
EvalPoint(m, p) ==
  LET I == PairsFn(p.interp)
      res == PairsFn(p.res_all)
      vis == { x.id : x \in Visible(m, I) }
  IN Fail("dom_ok", DOMAIN res \subseteq Ids(m) /\ vis \subseteq DOMAIN res)
     \cup Fail("val_equal", \A id \in DOMAIN res \cap Ids(m) : \A x \in { x \in Flat(m) : x.id = id } : res[id] = Iv(x, I))
     \cup Fail("top_equal", m.id \in DOMAIN res /\ p.res_top = res[m.id])
     \cup Fail("const_on_total", \A id \in DOMAIN res : IsConstIv(res[id]))
InDomain(m) == ~IsAtom(m) /\ WellDefined(m) /\ NoByRef(m)
EvEvaluate(e) ==
  IF ~InDomain(e.model) THEN {"outside_domain"}
  ELSE UNION { EvalPoint(e.model, e.points[i]) : i \in DOMAIN e.points }

(* ---- C06: partial interpretations are sound for every completion --------- *)
PartialPoint(m, p) ==
  LET I == PairsFn(p.interp)          \* leaf ids only; values are sub-ranges or constants
      res == PairsFn(p.res_all)
      \* completions: a leaf the interpretation mentions ranges over what the interpretation says (also beyond its declared bounds),
      \* every other leaf over its declared bounds
      lids == LeafIds(m)
      compl == RangeProduct(lids, [ i \in lids |-> IF i \in DOMAIN I THEN I[i][1] ELSE LeafLo(m, i) ],
                                  [ i \in lids |-> IF i \in DOMAIN I THEN I[i][2] ELSE LeafHi(m, i) ])
  IN Fail("dom_ok", DOMAIN res \subseteq Ids(m) /\ m.id \in DOMAIN res)
     \cup Fail("sound", \A a \in compl : \A id \in DOMAIN res \cap Ids(m) :
                           \A x \in { x \in Flat(m) : x.id = id } : InIv(Pt(x, a), res[id]))
     \cup Fail("top_equal", m.id \in DOMAIN res /\ p.res_top = res[m.id])
EvPartial(e) ==
  IF ~InDomain(e.model) THEN {"outside_domain"}
  ELSE UNION { PartialPoint(e.model, e.points[i]) : i \in DOMAIN e.points }

EvFlags(e) ==
  LET m == e.node
      vals == { KidSum(m, f) : f \in KidBox(m) }
  IN Fail("eqb_exact", e.eqb = << SetMin(vals), SetMax(vals) >>)
     \cup Fail("taut", e.taut <=> \A x \in vals : x >= 0)
     \cup Fail("contra", e.contra <=> \A x \in vals : x < 0)

(* ---- C01 / C02: to_ge_polyhedron ------------------------------------------ *)
EvIsConst(ev) == \A id \in DOMAIN ev : IsConstIv(ev[id])
ExtOf(ev) == [ id \in DOMAIN ev |-> ev[id][1] ]
EvToPoly(e) ==
  LET m == e.model
      cids == ColIds(e.cols)
      colsOk == cids \subseteq Ids(m) /\ (Ids(m) \ {m.id}) \subseteq cids
                /\ Cardinality(cids) = Len(e.cols)
                /\ \A i \in DOMAIN e.rows : Len(e.rows[i].a) = Len(e.cols)
      ptsOk == \A i \in DOMAIN e.points : LET ev == PairsFn(e.points[i].ev) IN
                   cids \cup {m.id} \subseteq DOMAIN ev /\ EvIsConst(ev)
  IN IF ~Claim(m) THEN {"outside_domain"} ELSE
     Fail("points_complete", PointsOK(e))
     \cup Fail("cols_are_ids", colsOk)
     \cup Fail("ev_total", ptsOk)
     \cup (IF colsOk /\ ptsOk THEN
             IF e.active
             THEN Fail("iff_top", \A i \in DOMAIN e.points : LET x == ExtOf(PairsFn(e.points[i].ev)) IN
                                     MSat(e.rows, e.cols, x) <=> (x[m.id] = 1))
             ELSE Fail("inactive_feasible", \A i \in DOMAIN e.points :
                                     MSat(e.rows, e.cols, ExtOf(PairsFn(e.points[i].ev))))
           ELSE {})

EvToPoly2(e) ==
  LET m == e.model
      cids == ColIds(e.cols)
      leafCols == { j \in DOMAIN e.cols : e.cols[j].id \in LeafIds(m) }
      auxCols  == DOMAIN e.cols \ leafCols
      colsOk == cids \subseteq Ids(m) /\ LeafIds(m) \subseteq cids /\ Cardinality(cids) = Len(e.cols)
                /\ \A i \in DOMAIN e.rows : Len(e.rows[i].a) = Len(e.cols)
      boundsOk == /\ \A j \in leafCols : e.cols[j].lo = LeafLo(m, e.cols[j].id) /\ e.cols[j].hi = LeafHi(m, e.cols[j].id)
                  /\ \A j \in auxCols : e.cols[j].lo >= 0 /\ e.cols[j].hi <= 1 /\ e.cols[j].lo <= e.cols[j].hi
      auxIds == { e.cols[j].id : j \in auxCols }
      AuxBoxR == { f \in [auxIds -> {0, 1}] : \A j \in auxCols : f[e.cols[j].id] >= e.cols[j].lo /\ f[e.cols[j].id] <= e.cols[j].hi }
      truth(i) == PairsFn(e.points[i].ev)[m.id]
  IN IF ~Claim(m) THEN {"outside_domain"} ELSE
     Fail("points_complete", PointsOK(e))
     \cup Fail("cols_are_ids", colsOk)
     \cup Fail("safe_built", (ExpectSafe(e.recipe) /\ RBool(e.recipe)) => Safe(m))
     \cup (IF colsOk THEN
             Fail("cols_bounds", boundsOk)
             \* a completion exists: the library's own evaluation of the sub-propositions is tried first as the witness; otherwise
             \* all 0/1 completions are enumerated while there are at most 12 auxiliary columns (beyond that: undecided, not alarmed)
             \cup Fail("complete", \A i \in DOMAIN e.points : truth(i) = <<1, 1>> =>
                          LET ev == PairsFn(e.points[i].ev) IN
                          \/ (cids \subseteq DOMAIN ev /\ EvIsConst(ev) /\ MSat(e.rows, e.cols, ExtOf(ev)))
                          \/ Cardinality(auxIds) > 12
                          \/ \E x \in AuxBoxR : MSat(e.rows, e.cols, PairsFn(e.points[i].asg) @@ x))
             \cup Fail("sound_if_safe", (Safe(m) /\ e.full) => \A i \in DOMAIN e.points : truth(i) # <<1, 1>> =>
                          \A x \in AuxBoxR : ~MSat(e.rows, e.cols, PairsFn(e.points[i].asg) @@ x))
           ELSE {})

(* ---- C05: negate / Not ------------------------------------------------------ *)
EvNegate(e) ==
  LET m == e.model
      g == e.neg
  IN IF ~Claim(m) THEN {"outside_domain"} ELSE
     Fail("points_complete", PointsComplete(m, e.points))
     \cup Fail("complement", \A i \in DOMAIN e.points : LET p == e.points[i] IN
                  IsConstIv(p.ev_orig) /\ IsConstIv(p.ev_neg) /\ p.ev_neg[1] = 1 - p.ev_orig[1])
     \cup Fail("complement_struct", ~IsAtom(g) /\ LeafIds(g) \subseteq LeafIds(m)
                  /\ \A a \in Box(m) : Pt(g, a) = 1 - Pt(m, a))
     \cup Fail("safe_kept", (~IsAtom(g) /\ Safe(m) /\ BoolLeaves(m)) => Safe(g))
     \cup Fail("id_kept", (~m.gen) => (g.id = m.id /\ ~g.gen))

(* ---- C07: assume -------------------------------------------------------------- *)
\* total assignments of the leaves not named in the dictionary
RestBox(m, D) == { Restr(a, DOMAIN a \ DOMAIN D) : a \in Box(m) }
EvAssume(e) ==
  LET m == e.model
      D == PairsFn(e.dict)
      r == e.res
      leafD == Restr(D, LeafIds(m))
      compD == Restr(D, CompIds(m))
      compl == { a \in Box(m) : \A i \in DOMAIN leafD : InIv(a[i], leafD[i]) }
  IN Fail("rest_complete", { PairsFn(e.points[i].rest) : i \in DOMAIN e.points } = { AsIv(a) : a \in RestBox(m, D) })
     \cup Fail("equiv_union", \A i \in DOMAIN e.points : e.points[i].ev_assumed = e.points[i].ev_union)
     \cup Fail("equiv_struct", \A a \in RestBox(m, D) : Iv(r, AsIv(a)) = Iv(m, Merge(D, AsIv(a))))
     \cup Fail("bounds_contain", \A x \in Flat(r) : (x.id \notin DOMAIN D /\ x.id \in Ids(m)) =>
                  \A a \in compl : \A y \in { y \in Flat(m) : y.id = x.id } :
                      InIv(Iv(y, Merge(AsIv(a), compD))[1], <<x.lo, x.hi>>) /\ InIv(Iv(y, Merge(AsIv(a), compD))[2], <<x.lo, x.hi>>))
     \cup Fail("ids_kept", Ids(r) \subseteq Ids(m) /\ r.id = m.id)

\* leaves with ranges too wide to enumerate: the recorded interpretations of the remaining leaves are judged one by one, and the
\* library's own evaluation of the union is held against the specified one (both of the library's paths could be wrong alike)
EvAssumeWide(e) ==
  LET m == e.model
      D == PairsFn(e.dict)
      r == e.res
      rests == { PairsFn(e.points[i].rest) : i \in DOMAIN e.points }
  IN IF ~InDomain(m) THEN {"outside_domain"} ELSE
     Fail("rest_complete", e.points # <<>> /\ \A a \in rests : DOMAIN a = LeafIds(m) \ DOMAIN D)
     \cup Fail("equiv_union", \A i \in DOMAIN e.points : e.points[i].ev_assumed = e.points[i].ev_union)
     \cup Fail("equiv_struct", \A i \in DOMAIN e.points : LET a == PairsFn(e.points[i].rest) IN
                                   /\ Iv(r, a) = Iv(m, Merge(D, a)) /\ e.points[i].ev_union = Iv(m, Merge(D, a)))
     \cup Fail("ids_kept", Ids(r) \subseteq Ids(m) /\ r.id = m.id)

(* ---- C08: reduce -------------------------------------------------------------- *)
\* leaves that are still free (non constant bounds) in the model handed to reduce()
FreeLeafIds(m) == { x.id : x \in { x \in Atoms(m) : x.lo # x.hi } }
FreeBox(m) == { Restr(a, FreeLeafIds(m)) : a \in Box(m) }
EvReduce(e) ==
  LET m == e.model
      r == e.res
  IN Fail("rest_complete", { PairsFn(e.points[i].rest) : i \in DOMAIN e.points } = { AsIv(a) : a \in FreeBox(m) })
     \cup Fail("equiv", \A i \in DOMAIN e.points : e.points[i].ev_model = e.points[i].ev_red)
     \cup Fail("equiv_struct", \A a \in FreeBox(m) : Iv(r, AsIv(a)) = Iv(m, AsIv(a)))
     \cup Fail("no_const_inside", NoConstInside(r))
     \cup Fail("ids_kept", Ids(r) \subseteq Ids(m) /\ r.id = m.id)

(* ---- C10: errors() --------------------------------------------------------------- *)
\* nodes without (the class name and) the object index of the projection: two equal definitions of one class built as separate objects are equal
RECURSIVE StripCls(_)
StripCls(n) == IF IsAtom(n) THEN [n EXCEPT !.o = 0] ELSE [n EXCEPT !.cls = "", !.o = 0, !.kids = [ i \in DOMAIN n.kids |-> StripCls(n.kids[i]) ]]
RECURSIVE StripO(_)
StripO(n) == IF IsAtom(n) THEN [n EXCEPT !.o = 0] ELSE [n EXCEPT !.o = 0, !.kids = [ i \in DOMAIN n.kids |-> StripO(n.kids[i]) ]]
RECURSIVE PlainClasses(_)
PlainClasses(r) == IsLeafR(r) \/ (r.c \in {"All", "Any", "AtLeast", "AtMost", "Xor", "ExactlyOne"} /\ \A i \in DOMAIN r.a : PlainClasses(r.a[i]))
RECURSIVE AllNamed(_)
AllNamed(r) == IsLeafR(r) \/ (r.c \in {"All", "Any", "AtLeast", "AtMost"} /\ r.id # "" /\ \A i \in DOMAIN r.a : AllNamed(r.a[i]))
EvErrors(e) ==
  LET m == e.model IN
  Fail("accepted_welldef", (e.errs = <<>>) => WellDefined(m))
  \cup Fail("tree_accepted", TreeDistinct(m) => e.errs = <<>>)
  \cup Fail("shared_accepted", SharesIdenticalOnly(StripO(m)) => e.errs = <<>>)
  \* ... also judged on what the recipe DENOTES (plain classes only: below negating connectives generated ids may coincide): copies of a
  \* sub-proposition the caller wrote identically are identical, however their children were spelled
  \* (and only where the caller named every sub-proposition: generated ids concatenate the children's ids, "ab","c" and "a","bc" coincide)
  \cup Fail("shared_accepted", ("recipe" \in DOMAIN e /\ AllNamed(e.recipe) /\ ~IsLeafR(e.recipe) /\ SharesIdenticalOnly(Mk(e.recipe))) => e.errs = <<>>)

(* ---- C04: constructors have their documented truth functions -------------------- *)
EvBuild(e) ==
  LET r == e.recipe
      m == e.model
      lids == RLeafIds(r)
      sm == Mk(r)
  IN IF ~Documented(r) \/ IsAtom(sm) \/ ~WellDefined(sm) \/ ~NoByRef(sm) THEN {"outside_domain"}
     \* (below a negating connective the library's wrappers of negated leaves may coincide - by their generated ids - with a sibling the
     \* caller wrote, e.g. XNor(b, AtMost(0, [b])): such objects do not validate, and generated ids are not modelled to that precision)
     \* (nor where one definition occurs under two classes - a plain Any next to the "at least one" half of an Xor over the same members:
     \* the pinned tree's validation rejects such models, an old observation, see C14-3 in 15.1)
     ELSE IF e.errs # <<>> /\ (~PlainClasses(r) \/ \E x, y \in Comps(sm) : x.id = y.id /\ x.cls # y.cls) THEN {"outside_domain"} ELSE
     \* a recipe without negating connectives that denotes a well-defined model is built into an object that passes validation
     Fail("built_valid", e.errs = <<>>)
     \cup Fail("leaves_same", ~IsAtom(m) /\ LeafIds(m) = lids /\ BoolLeaves(m))
     \cup Fail("table_complete", { PairsFn(e.table[i].asg) : i \in DOMAIN e.table } = [lids -> {0, 1}])
     \cup Fail("truthfn", \A i \in DOMAIN e.table : LET a == PairsFn(e.table[i].asg) IN
                  e.table[i].ev = <<TF(r, a), TF(r, a)>>)
     \cup Fail("truthfn_struct", (~IsAtom(m) /\ LeafIds(m) = lids) => \A a \in [lids -> {0, 1}] : Pt(m, a) = TF(r, a))
     \cup Fail("id_kept", (r.id # "") => (m.id = r.id /\ ~m.gen))
     \cup Fail("gen_flag", (r.id = "" /\ r.c # "Not") => m.gen)

(* ---- C16: JSON round trip ------------------------------------------------------------ *)
ExplicitIds(n) == { x.id : x \in { x \in Comps(n) : ~x.gen } }
RECURSIVE JNodes(_)
JNodes(j) == {j} \cup UNION { JNodes(j.kids[i]) : i \in DOMAIN j.kids }
JIds(j) == { x.id : x \in { x \in JNodes(j) : ~x.leaf /\ x.id # "" } }
LeafDefs(n) == { <<x.id, x.lo, x.hi>> : x \in Atoms(n) }
\* ids the user gave explicitly (from the recipe): generated ids are not compared by name
\* defaults / priorities attached to nodes
Tags(n, named) == { << (IF x.id \in named THEN x.id ELSE ""), x.dflt, x.prio >> : x \in { x \in Comps(n) : x.dflt # <<>> \/ x.prio # -1 } }
ColLo(cols) == [ i \in ColIds(cols) |-> cols[CHOOSE j \in DOMAIN cols : cols[j].id = i].lo ]
ColHi(cols) == [ i \in ColIds(cols) |-> cols[CHOOSE j \in DOMAIN cols : cols[j].id = i].hi ]
PolySol(p) == { x \in RangeProduct(ColIds(p.cols), ColLo(p.cols), ColHi(p.cols)) : MSat(p.rows, p.cols, x) }
Bag(f, K) == [ v \in { f[k] : k \in K } |-> Cardinality({ k \in K : f[k] = v }) ]
\* two configurators' default priorities and polyhedra agree up to the naming of generated ids
\* strict = the recipe's defaulted groups are asserted as they stand (PuanPrioOps.DefaultsPositive); a defaulted group below a negation
\* has no stated meaning for its "default" (observation O5: its priority tag survives an un-pushed negation in the original but not
\* through JSON), so there the tags of generated nodes are not compared
CfgSame(o, b, named, strict) ==
  LET dpo == PairsFn(o.dp)  dpb == PairsFn(b.dp)
      po == o.poly  pb == b.poly
      nco == ColIds(po.cols) \cap named
      ncb == ColIds(pb.cols) \cap named
      vals(f, K) == { f[k] : k \in K }
  IN Fail("dp_same", /\ \A k \in DOMAIN dpo \cap named : k \in DOMAIN dpb /\ dpb[k] = dpo[k]
                     /\ DOMAIN dpo \cap named = DOMAIN dpb \cap named
                     /\ (strict => vals(dpo, DOMAIN dpo \ named) = vals(dpb, DOMAIN dpb \ named)))
     \* generated ids depend on how a node was written down (e.g. whether sign was passed), so a round trip may rename,
     \* merge or split auxiliary columns: compared are the named columns and the solution set projected onto them
     \cup Fail("poly_same", /\ nco = ncb
                             /\ Len(po.dpv) = Len(po.cols) /\ Len(pb.dpv) = Len(pb.cols)
                             /\ (\A i \in nco : \E j \in DOMAIN po.cols : \E k \in DOMAIN pb.cols :
                                   po.cols[j].id = i /\ pb.cols[k].id = i /\ po.cols[j].lo = pb.cols[k].lo
                                   /\ po.cols[j].hi = pb.cols[k].hi /\ po.dpv[j] = pb.dpv[k])
                             /\ (strict => { po.dpv[c1] : c1 \in { c2 \in DOMAIN po.cols : po.cols[c2].id \notin named } }
                                          = { pb.dpv[c3] : c3 \in { c4 \in DOMAIN pb.cols : pb.cols[c4].id \notin named } })
                             /\ (o.enum /\ b.enum) => { Restr(x, nco) : x \in PolySol(po) } = { Restr(x, ncb) : x \in PolySol(pb) })
EvJson(e) ==
  LET m == e.model
      b == e.back
      named == RExplicit(e.recipe) \cup LeafIds(m)
  IN IF ~(~IsAtom(m) /\ WellDefined(m) /\ NoPrefixed(m) /\ NoByRef(m)) THEN {"outside_domain"}
     ELSE IF IsAtom(b) THEN {"back_is_model"}
     ELSE Fail("leaves_same", LeafDefs(b) = LeafDefs(m))
          \cup Fail("points_complete", PointsComplete(m, e.points))
          \cup Fail("equiv", \A i \in DOMAIN e.points : e.points[i].ev_orig = e.points[i].ev_back)
          \cup Fail("equiv_struct", LeafDefs(b) = LeafDefs(m) => \A a \in Box(m) : Pt(b, a) = Pt(m, a))
          \cup Fail("ids_explicit", RExplicit(e.recipe) \subseteq JIds(e.jdoc) /\ RExplicit(e.recipe) \subseteq ExplicitIds(b))
          \cup Fail("ids_generated_absent", JIds(e.jdoc) \subseteq RExplicit(e.recipe))
          \cup (IF e.is_cfg THEN Fail("defaults_same", DefaultsPositive(e.recipe, TRUE) => Tags(b, named) = Tags(m, named))
                                  \cup CfgSame(e.cfg_orig, e.cfg_back, named, DefaultsPositive(e.recipe, TRUE))
                ELSE {})

(* ---- C17: base64 round trip (abstract values; the byte format is not modelled) -------- *)
EvB64(e) ==
  Fail("struct_same", e.back = e.model /\ e.again = e.model)
  \cup Fail("text_same", e.shorts_after = e.shorts_before)
  \cup Fail("queries_same", e.q_after = e.q_before)
EvB64Poly(e) ==
  Fail("poly_struct_same", e.p_after = e.p_before)
  \cup Fail("poly_again_same", e.p_again = e.p_before)
  \cup Fail("select_same", e.sel_after = e.sel_before)

(* ---- C09 / C18: call histories over a store of live objects ------------------------------------- *)
\* the named deviation of the API machine (PuanAPI.Leak): which bounds a dictionary overwrites
RECURSIVE LeakT(_, _)
LeakT(n, D) ==
  IF IsAtom(n) THEN n
  ELSE LET own == IF Has(D, n.id) THEN D[n.id] ELSE <<n.lo, n.hi>>
           n1 == [n EXCEPT !.lo = own[1], !.hi = own[2]]
       IN IF Const(own) THEN n1
          ELSE [n1 EXCEPT !.kids = [ i \in DOMAIN n.kids |-> LeakT(n.kids[i], D) ]]

(* ---- C09: a model and the object assume() / reduce() returned for it are independent ------------------------------ *)
\* Calls that trigger the known overwrite (D2) change the object they are called on, and nothing else: poking the result leaves the
\* source as it was, poking the source leaves the result as it was.  (negate() is recorded but not judged: on the pinned tree its
\* result keeps the un-negated sub-propositions of the source as the same objects, so there the known overwrite is seen through both.)
EvDerivePoke(e) ==
  IF e.kind = "negate" THEN {}
  ELSE Fail("store_unchanged", e.source_after = e.source_before /\ e.result_after = e.result_before)

(* ---- C09: two models built from the same sub-proposition objects ------------------------------------ *)
\* the object index o of the projection numbers Python objects in order of first appearance; with deliberately shared objects it is
\* not comparable with a freshly built model, everything else is
EvSharedBuild(e) ==
  Fail("store_unchanged", e.first_after_build = e.first_before.node /\ e.first_after = e.first_before)
  \cup Fail("result_as_fresh", /\ [e.first_before EXCEPT !.node = StripO(@)] = [e.first_fresh EXCEPT !.node = StripO(@)]
                               /\ [e.second EXCEPT !.node = StripO(@)] = [e.second_fresh EXCEPT !.node = StripO(@)])

\* another live object that shares sub-objects with the called one sees the overwrite on the shared sub-objects only: it equals
\* its former self except that bounds of sub-propositions named in the dictionary may have become the named value
RECURSIVE LeakSome(_, _, _)
LeakSome(b, a, D) ==
  /\ b.k = a.k /\ b.id = a.id
  /\ IF IsAtom(b) THEN a = b
     ELSE /\ [a EXCEPT !.lo = b.lo, !.hi = b.hi, !.kids = b.kids] = b
          /\ (<<a.lo, a.hi>> = <<b.lo, b.hi>> \/ (Has(D, b.id) /\ <<a.lo, a.hi>> = D[b.id]))
          /\ Len(a.kids) = Len(b.kids) /\ \A i \in DOMAIN b.kids : LeakSome(b.kids[i], a.kids[i], D)
KnownMarkers == {"KNOWN_assume_own_id_leak"}
DictOps == {"evaluate", "evaluate_all", "assume"}
\* one step: [h, op, dict, before, after, res, res_fresh, hooks, ...]; taint = handles whose state a known deviation changed
StepV(s, taint) ==
  LET bf == PairsFn(s.before)  af == PairsFn(s.after)
      D == PairsFn(s.dict)
      \* add() re-binds its handle to the new configurator; the old one is observed through old_after and stays in the store
      rebound == IF s.op = "add" /\ ~s.raised /\ ~s.refused THEN {s.h} ELSE {}
      changed == { h \in DOMAIN bf \ rebound : h \notin DOMAIN af \/ af[h] # bf[h] }
      \* the known deviation: the dictionary of THIS call overwrote bounds of sub-propositions it names; objects that share
      \* sub-objects with the called one (an extended configurator and its original) see the same overwrite
      known == { h \in changed : s.op \in DictOps /\ h \in DOMAIN af /\
                     IF h = s.h THEN af[h] = LeakT(bf[h], D) ELSE (s.h \in changed /\ LeakSome(bf[h], af[h], D)) }
  IN [ v |-> Fail("store_unchanged", changed \ known = {})
             \cup (IF known # {} THEN {"KNOWN_assume_own_id_leak"} ELSE {})
             \cup Fail("no_unexplained_overwrite", \A k \in DOMAIN s.hooks :
                         s.op \in DictOps /\ s.hooks[k].id \in DOMAIN D /\ s.hooks[k].new = D[s.hooks[k].id])
             \cup Fail("result_as_fresh", s.h \in taint \/ s.res = s.res_fresh)
             \* an object a known deviation has changed must still answer like a freshly built object with ITS CURRENT definition
             \* (class names are not compared: the rebuilt object is made of plain AtLeast nodes)
             \cup Fail("result_as_state", (s.h \in taint /\ s.has_state) =>
                         IF s.res_is_node THEN StripCls(s.res) = StripCls(s.res_state) ELSE s.res = s.res_state)
             \cup (IF s.op \in {"add", "add_q"} /\ ~s.raised /\ s.h \notin taint THEN
                     Fail("refused_iff_clash", s.refused <=> (s.rule_id \in { bf[s.h].kids[i].id : i \in DOMAIN bf[s.h].kids }))
                     \cup (IF s.refused THEN {} ELSE
                           Fail("is_direct_build", s.res = s.res_fresh)
                           \cup Fail("id_kept", s.res.node.id = bf[s.h].id)
                           \cup Fail("old_unchanged", s.old_after = bf[s.h]))
                   ELSE {}),
       t |-> taint \cup known ]
RECURSIVE HistV(_, _, _)
HistV(steps, k, taint) == IF k > Len(steps) THEN {}
                          ELSE LET r == StepV(steps[k], taint) IN r.v \cup HistV(steps, k + 1, r.t)
EvHistory(e) == HistV(e.steps, 1, {})

(* ---- light events: calls recorded from the repository's own tests; TLC computes the reference values itself ---- *)
SmallDom(m) == ~IsAtom(m) /\ WellDefined(m) /\ NoByRef(m)
EvLEvaluate(e) ==
  LET m == e.model  I == PairsFn(e.interp) IN
  IF ~SmallDom(m) \/ ~(DOMAIN I \subseteq Ids(m)) THEN {"outside_domain"}
  ELSE IF \A lf \in LeafIds(m) : lf \in DOMAIN I /\ Const(I[lf])
       THEN Fail("val_equal", e.res = Iv(m, I))
       ELSE IF DOMAIN I \subseteq LeafIds(m) /\ NoPrefixed(m) /\ \A lf \in DOMAIN I : I[lf][1] <= I[lf][2]
            THEN Fail("sound", \A a \in { a \in Box(m) : \A i \in DOMAIN I : InIv(a[i], I[i]) } : InIv(Pt(m, a), e.res))
            ELSE {}
EvLNegate(e) ==
  IF ~Claim(e.model) \/ IsAtom(e.neg) THEN {"outside_domain"}
  ELSE Fail("complement_struct", LeafIds(e.neg) \subseteq LeafIds(e.model) /\ \A a \in Box(e.model) : Pt(e.neg, a) = 1 - Pt(e.model, a))
       \cup Fail("safe_kept", (Safe(e.model) /\ BoolLeaves(e.model)) => Safe(e.neg))
       \cup Fail("id_kept", (~e.model.gen) => (e.neg.id = e.model.id /\ ~e.neg.gen))
EvLAssume(e) ==
  LET m == e.model  D == PairsFn(e.dict) IN
  IF ~SmallDom(m) \/ ~(DOMAIN D \subseteq Ids(m)) \/ \E i \in DOMAIN D : D[i][1] > D[i][2] THEN {"outside_domain"}
  ELSE Fail("equiv_struct", \A a \in RestBox(m, D) : Iv(e.res, AsIv(a)) = Iv(m, Merge(D, AsIv(a))))
EvLReduce(e) ==
  IF ~SmallDom(e.model) THEN {"outside_domain"}
  ELSE Fail("equiv_struct", \A a \in FreeBox(e.model) : Iv(e.res, AsIv(a)) = Iv(e.model, AsIv(a)))
       \cup Fail("no_const_inside", NoConstInside(e.res))
EvLToPoly(e) ==
  LET m == e.model  cids == ColIds(e.cols) IN
  IF ~Claim(m) THEN {"outside_domain"}
  ELSE IF ~(cids \subseteq Ids(m) /\ (Ids(m) \ {m.id}) \subseteq cids /\ Cardinality(cids) = Len(e.cols)
            /\ \A i \in DOMAIN e.rows : Len(e.rows[i].a) = Len(e.cols)) THEN {"cols_are_ids"}
  ELSE IF e.active THEN Fail("iff_top", \A a \in Box(m) : MSat(e.rows, e.cols, Ext(m, a)) <=> (Pt(m, a) = 1))
       ELSE Fail("inactive_feasible", \A a \in Box(m) : MSat(e.rows, e.cols, Ext(m, a)))

(* ---- purity of the call on the object it was made on (C09, on every event that logs it) *)
EvPure(e) == IF "after" \in DOMAIN e THEN Fail("store_unchanged", e.after = e.model) ELSE {}

Verdict(e) ==
  (CASE e.op = "evaluate"  -> EvEvaluate(e)
     [] e.op = "partial"   -> EvPartial(e)
     [] e.op = "flags"     -> EvFlags(e)
     [] e.op = "to_poly"   -> EvToPoly(e)
     [] e.op = "to_poly2"  -> EvToPoly2(e)
     [] e.op = "negate"    -> EvNegate(e)
     [] e.op = "assume"    -> EvAssume(e)
     [] e.op = "assume_wide" -> EvAssumeWide(e)
     [] e.op = "reduce"    -> EvReduce(e)
     [] e.op = "errors"    -> EvErrors(e)
     [] e.op = "build"     -> EvBuild(e)
     [] e.op = "json"      -> EvJson(e)
     [] e.op = "b64"       -> EvB64(e)
     [] e.op = "b64poly"   -> EvB64Poly(e)
     [] e.op = "history"   -> EvHistory(e)
     [] e.op = "shared_build" -> EvSharedBuild(e)
     [] e.op = "derive_poke" -> EvDerivePoke(e)
     [] e.op = "determinism" -> Fail("result_as_fresh", e.later = e.first)      \* PuanAPI.Determinism: a call's result is a function of its arguments
     [] e.op = "results_stable" -> Fail("result_stable", e.later = e.first)
     [] e.op = "l_evaluate" -> EvLEvaluate(e)
     [] e.op = "l_negate"  -> EvLNegate(e)
     [] e.op = "l_assume"  -> EvLAssume(e)
     [] e.op = "l_reduce"  -> EvLReduce(e)
     [] e.op = "l_to_poly" -> EvLToPoly(e)
     [] e.op = "exc"       -> {"no_exception"}
     [] e.op \in PolyOpNames -> PolyVerdict(e)
     [] e.op \in PrioOpNames -> PrioVerdict(e)
     [] e.op \in ExtraOpNames -> ExtraVerdict(e)
     [] OTHER              -> {"unknown_op"})
  \cup EvPure(e)

Init == l = 1
Step == /\ l <= Len(Trace)
        /\ LET e == Trace[l]
               bad == Verdict(e)
               real == bad \ KnownMarkers
           IN /\ IF real = {} THEN TRUE
                 ELSE IF "outside_domain" \in real THEN PrintT(<<"INFO", e.tid, "outside_domain">>)
                 ELSE PrintT(<<"REJECT", e.tid, real>>)
              /\ IF bad \cap KnownMarkers = {} THEN TRUE ELSE PrintT(<<"KNOWN", e.tid, bad \cap KnownMarkers>>)
        /\ l' = l + 1
Spec == Init /\ [][Step]_vars
AllConsumed == TLCGet("stats").diameter - 1 = Len(Trace)
=============================================================================
