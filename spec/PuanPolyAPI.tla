---------------------------- MODULE PuanPolyAPI ----------------------------
(***************************************************************************)
(* A polyhedron OBJECT as a machine: one live ge_polyhedron, the public    *)
(* calls made on it one after the other.  Queries leave the object as it   *)
(* is; the reduction calls return a new polyhedron with which the caller   *)
(* goes on; the caller may also edit the live array in place or re-declare *)
(* a column (environment actions).  cur is what the live object denotes,   *)
(* orig what the caller last declared (built or edited), fix the columns   *)
(* the reductions since then have given a value.                           *)
(* Property checked on the machine itself: reductions COMPOSE - after any  *)
(* interleaving of queries and reduction steps the current polyhedron has  *)
(* exactly the projection of the solution set of what was declared (C11    *)
(* for sequences of calls), and its row labels are the labels of the rows  *)
(* it kept.  The histories TLC enumerates are replayed into the library    *)
(* (drv_poly_history) and every step is validated by PolyHistV below       *)
(* (PuanPolyOps): the result of each call must be right for what the       *)
(* object denotes AT THAT POINT of the history.                            *)
(***************************************************************************)
EXTENDS PuanPolyOps

CONSTANTS Catalog,      \* set of [rows, cols, index] the history may start from
          PCalls,       \* the calls explored
          PMaxLen       \* length of the histories

VARIABLES start,        \* the polyhedron the object was built as (never changes)
          cur, orig, fix, hist
pvars == <<start, cur, orig, fix, hist>>

QueryCalls == {"A", "b", "to_linalg", "column_bounds", "row_bounds", "ncomb", "tighten", "red_rows", "red_cols", "rr_and_c",
               "sat", "sep", "rowsep", "idx", "copy", "rewrap", "neglectable",
               \* the reduction calls made for their result only: the caller goes on with the polyhedron it had
               "reduce_cols_q", "reduce_rows_q", "reduce_both_q",
               \* reduce(columns_vector = every column at its lower bound) and reduce(rows_vector = no row), for their results only
               "assign_lo", "drop_none"}
StepCalls == {"reduce_cols", "reduce_rows", "reduce_both"}
EnvCalls == {"edit", "widen"}
NoFixP(p) == [ j \in DOMAIN p.cols |-> [fixed |-> FALSE, val |-> 0] ]

Init == \E p \in Catalog : start = p /\ cur = p /\ orig = p /\ fix = NoFixP(p) /\ hist = <<>>

\* (a polyhedron that has lost all its rows or all its columns is not asked anything further: the library raises on most calls
\* then - observation O14)
Query(c) == /\ c \in QueryCalls \cap PCalls
            /\ cur.rows # <<>> /\ cur.cols # <<>>
            /\ hist' = Append(hist, c)
            /\ UNCHANGED <<cur, orig, fix>>
\* fixed columns of cur, lifted to the columns of orig
Lift(cv) == [ j \in DOMAIN orig.cols |-> IF fix[j].fixed THEN fix[j]
                                        ELSE cv[ColPos(cur.cols, orig.cols[j].id)] ]
\* the caller goes on with  P.reduce_columns(P.reducable_columns_approx())
StepCols == /\ "reduce_cols" \in PCalls /\ cur.cols # <<>> /\ cur.rows # <<>>
            /\ LET cv == RedCols(cur.rows, cur.cols)
                   nx == ReduceCols(cur.rows, cur.cols, cv)
               IN /\ cur' = [rows |-> nx.rows, cols |-> nx.cols, index |-> cur.index]
                  /\ fix' = Lift(cv)
            /\ hist' = Append(hist, "reduce_cols")
            /\ UNCHANGED orig
\* ... with  P.reduce_rows(P.reducable_rows())
StepRows == /\ "reduce_rows" \in PCalls /\ cur.rows # <<>>
            /\ LET rv == RedRows(cur.rows, cur.cols) IN
                 cur' = [cur EXCEPT !.rows = ReduceRows(cur.rows, rv), !.index = ReduceRows(cur.index, rv)]
            /\ hist' = Append(hist, "reduce_rows")
            /\ UNCHANGED <<orig, fix>>
\* ... with  P.reduce(*P.reducable_rows_and_columns())  (here: one pass of the loop; the loop itself is the machine PuanPoly)
StepBoth == /\ "reduce_both" \in PCalls /\ cur.cols # <<>> /\ cur.rows # <<>>
            /\ LET cv == RedCols(cur.rows, cur.cols)
                   nx == ReduceCols(cur.rows, cur.cols, cv)
                   rv == RedRows(nx.rows, nx.cols)
               IN /\ cur' = [rows |-> ReduceRows(nx.rows, rv), cols |-> nx.cols, index |-> ReduceRows(cur.index, rv)]
                  /\ fix' = Lift(cv)
            /\ hist' = Append(hist, "reduce_both")
            /\ UNCHANGED orig
\* the caller edits the live array in place: last coefficient of the first row + 1 (what is declared from now on)
Edit == /\ "edit" \in PCalls /\ cur.rows # <<>> /\ cur.cols # <<>>
        /\ cur' = EditP(cur) /\ orig' = EditP(cur) /\ fix' = NoFixP(cur)
        /\ hist' = Append(hist, "edit")
\* ... re-declares the last column with an upper bound one higher
Widen == /\ "widen" \in PCalls /\ cur.cols # <<>>
         /\ cur' = WidenP(cur) /\ orig' = WidenP(cur) /\ fix' = NoFixP(cur)
         /\ hist' = Append(hist, "widen")
Next == /\ Len(hist) < PMaxLen
        /\ UNCHANGED start
        /\ (\E c \in PCalls : Query(c)) \/ StepCols \/ StepRows \/ StepBoth \/ Edit \/ Widen
Spec == Init /\ [][Next]_pvars

(* ---- properties of the machine --------------------------------------------------------- *)
\* reductions compose: the live polyhedron is the projection of what was declared
Composed == ProjOK(orig.rows, orig.cols, fix, cur.rows, cur.cols)
\* every kept row is a row of the declaration with its own label (up to the constants moved into b)
LabelsKept == /\ Len(cur.index) = Len(cur.rows)
              /\ \A k \in DOMAIN cur.index : \E i \in DOMAIN orig.index : orig.index[i] = cur.index[k]
\* queries change nothing (by construction of the machine: the property the trace validation holds the library to)
QueriesPure == [][hist'[Len(hist')] \in QueryCalls => cur' = cur]_pvars
=============================================================================
