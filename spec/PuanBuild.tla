----------------------------- MODULE PuanBuild -----------------------------
(***************************************************************************)
(* Builder machine: models are built by applying the library's             *)
(* constructors to leaves and to previously built propositions.  A state   *)
(* holds RECIPES (which constructor, which arguments, which id option),    *)
(* Mk expands a recipe to the Node the constructor is specified to return. *)
(* TLC enumerates the recipes; the harness replays every recipe with the   *)
(* real constructors, the invariants below are the listed properties       *)
(* stated on the specification itself.                                     *)
(***************************************************************************)
EXTENDS PuanPrioOps

CONSTANTS Leaves,      \* set of leaf recipes [c |-> "leaf", id, lo, hi]
          Classes,     \* subset of {"AtLeast","AtMost","All","Any","Xor","XNor","Imply","Not"}
          Values,      \* values tried for AtLeast / AtMost
          SignArgs,    \* sign arguments tried for AtLeast: subset of {0, 1, -1}   (0 = not given)
          IdOpts,      \* subset of {"gen", "exp"}
          MaxComp,     \* number of constructor applications
          MaxKids,     \* arguments per application
          MinKids,     \* 0 allows propositions without sub-propositions (All(), Any(), ...)
          DictIds,     \* how many ids an assumption / partial interpretation may name
          FixOpts,     \* subset of {-1, 0, 1}: pre-fixing of explicitly named compounds by their own bounds (-1 = not fixed)
          ExpIds       \* explicit ids to draw from ({} = a fresh id "N<k>" per application); a non-empty set
                       \* switches the builder to ADVERSARIAL mode: ids may be reused, arguments may clash

VARIABLES pool, focus, nb
vars == <<pool, focus, nb>>

(* ---- the machine ----------------------------------------------------------*)
RIds(r) == Ids(Mk(r))
Usable == Leaves \cup { r \in pool : r.c # "Cfg" }      \* a configurator is never an argument
ArgSets == { S \in SUBSET Usable : Cardinality(S) >= MinKids /\ Cardinality(S) <= MaxKids }
\* arguments must have pairwise distinct ids and may not (re)define an id of another argument's sub tree differently
Compatible(S) == /\ \A x, y \in S : x # y => Mk(x).id # Mk(y).id
Adversarial == ExpIds # {}
ArgSeqs(cls) ==
  IF Adversarial /\ cls \notin {"Not", "Imply"} THEN { SetToSeq(S) : S \in ArgSets }
  ELSE IF cls = "Not" THEN { <<x>> : x \in Usable }
  ELSE IF cls = "Imply" THEN { <<x, y>> : x, y \in Usable } \ { <<x, x>> : x \in Usable }
  ELSE { SetToSeq(S) : S \in { S \in ArgSets : Compatible(S) } }
ValOpts(cls)  == IF cls \in {"AtLeast", "AtMost"} THEN Values ELSE {0}
SignOpts(cls) == IF cls = "AtLeast" THEN SignArgs ELSE {0}
\* defaults of the configurator connectives: none, or the id of one of the leaf arguments
DefOpts(cls, args) == IF cls \in {"ccAny", "ccXor"}
                      THEN {""} \cup { args[i].id : i \in { i \in DOMAIN args : IsLeafR(args[i]) } }
                      ELSE {""}
IdsOf(io) == IF io = "gen" THEN {""} ELSE IF ExpIds = {} THEN {"N" \o ToString(nb + 1)} ELSE ExpIds

Init == pool = {} /\ nb = 0 /\ focus = CHOOSE l \in Leaves : TRUE
Apply(cls) ==
  /\ nb < MaxComp
  /\ \E args \in ArgSeqs(cls) : \E v \in ValOpts(cls) : \E s \in SignOpts(cls) : \E io \in IdOpts :
     \E ident \in (IF cls = "Not" THEN {""} ELSE IdsOf(io)) : \E dd \in DefOpts(cls, args) :
     \E fx \in (IF ident = "" \/ cls \in {"ccAny", "ccXor", "Cfg"} THEN {-1} ELSE FixOpts) :
       LET r == [c |-> cls, a |-> args, id |-> ident, v |-> v, s |-> s, d |-> dd, f |-> fx] IN
       /\ (cls = "Not" => io = CHOOSE x \in IdOpts : TRUE)
       /\ pool' = pool \cup {r}
       /\ focus' = r
  /\ nb' = nb + 1
\* adversarial mode: put two previously built propositions under DIFFERENT parents of one model, so that equal ids with
\* different definitions (bounds, sign, value, children) meet without being siblings
TwinLeaf(i) == [c |-> "leaf", id |-> i, lo |-> 0, hi |-> 1]
Wrap(cls, args) == [c |-> cls, a |-> args, id |-> "", v |-> 0, s |-> 0, d |-> "", f |-> -1]
Twin == /\ Adversarial /\ nb = MaxComp /\ focus.c # "All"
        /\ \E r1, r2 \in pool : r1 # r2 /\
              focus' = Wrap("All", << Wrap("Any", <<r1, TwinLeaf("twx")>>), Wrap("Any", <<r2, TwinLeaf("twy")>>) >>)
        /\ nb' = nb + 1 /\ UNCHANGED pool
Next == (\E cls \in Classes : Apply(cls)) \/ Twin
Spec == Init /\ [][Next]_vars

(* ---- the listed properties, stated on the specification ------------------ *)
F == Mk(focus)
Claimable(m) == ~IsAtom(m) /\ WellDefined(m) /\ NoPrefixed(m) /\ NoByRef(m)

\* C01: encoding agrees with evaluation
C01 == Claimable(F) => \A a \in Box(F) :
          /\ Sat(Rows(F, TRUE), Ext(F, a)) <=> (Pt(F, a) = 1)
          /\ Sat(Rows(F, FALSE), Ext(F, a))
\* C02: no satisfying leaf assignment lost; for solver-safe models nothing else gained
AuxBox(m) == [ CompIds(m) \ {m.id} -> {0, 1} ]
C02 == Claimable(F) =>
          /\ \A a \in Box(F) : Pt(F, a) = 1 => \E x \in AuxBox(F) : Sat(Rows(F, TRUE), a @@ x @@ (F.id :> 1))
          /\ Safe(F) => \A a \in Box(F) : \A x \in AuxBox(F) :
                            Sat(Rows(F, TRUE), a @@ x @@ (F.id :> 1)) => Pt(F, a) = 1
\* C02 (second half): what the constructors build over boolean leaves is in solver-safe form
C02safe == (~IsAtom(F) /\ ExpectSafe(focus) /\ RBool(focus)) => Safe(F)
\* C03: interval evaluation of a total interpretation is the arithmetic truth function
C03 == (~IsAtom(F) /\ WellDefined(F)) => \A a \in Box(F) : \A m \in Flat(F) :
          Iv(m, AsIv(a)) = <<Pt(m, a), Pt(m, a)>>
\* C04: connectives have their documented truth functions over boolean leaves
C04 == (~IsAtom(F) /\ Documented(focus) /\ BoolLeaves(F)) => \A a \in Box(F) : Pt(F, a) = TF(focus, a)
\* C05: negation is the exact complement, keeps solver-safe form and explicit ids
C05 == Claimable(F) => LET g == Neg(F) IN
          /\ \A a \in Box(F) : Pt(g, a) = 1 - Pt(F, a)
          /\ (Safe(F) /\ BoolLeaves(F)) => Safe(g)
          /\ ~F.gen => g.id = F.id
          /\ LeafIds(g) = LeafIds(F)

\* dictionaries over at most DictIds ids; leaves get lower / upper / whole range, compounds 0 / 1 / (0,1)
Opts(m) == IF IsAtom(m) THEN { <<m.lo, m.lo>>, <<m.hi, m.hi>>, <<m.lo, m.hi>> } ELSE { <<0,0>>, <<1,1>>, <<0,1>> }
Dicts(S) == UNION { { f \in [T -> UNION { Opts(NodeOf(F, i)) : i \in T }] : \A i \in T : f[i] \in Opts(NodeOf(F, i)) }
                    : T \in { T \in SUBSET S : Cardinality(T) <= DictIds } }
Compl(I) == { a \in Box(F) : \A i \in DOMAIN I \cap DOMAIN a : InIv(a[i], I[i]) }
\* C06: partial evaluation is sound for every completion; flags and equation bounds are exact
C06 == (~IsAtom(F) /\ WellDefined(F) /\ NoByRef(F)) =>
          /\ \A I \in Dicts(LeafIds(F)) : \A a \in Compl(I) : \A m \in Flat(F) : InIv(Pt(m, a), Iv(m, I))
          /\ \A m \in Comps(F) : LET vals == { KidSum(m, f) : f \in KidBox(m) } IN
                /\ EqBounds(m) = << SetMin(vals), SetMax(vals) >>
                /\ Taut(m) <=> \A x \in vals : x >= 0
                /\ Contra(m) <=> \A x \in vals : x < 0
\* C07: assuming = evaluating with the values
C07 == (~IsAtom(F) /\ WellDefined(F)) => \A D \in Dicts(Ids(F)) :
          LET m == Assm(F, D) IN
          \A a0 \in Box(F) : LET a == Restr(AsIv(a0), DOMAIN a0 \ DOMAIN D) IN Iv(m, a) = Iv(F, Merge(D, a))
\* C08: reduce keeps meaning and leaves no constant inside
C08 == (~IsAtom(F) /\ WellDefined(F)) => \A D \in Dicts(Ids(F)) :
          LET m == Assm(F, D) r == IF IsAtom(m) THEN m ELSE Red(m) IN
          /\ NoConstInside(r)
          /\ \A a0 \in Box(F) : LET a == Restr(AsIv(a0), DOMAIN a0 \ DOMAIN D) IN Iv(r, a) = Iv(m, a)
\* C14 / C15 on the specification: for a configurator, the shadow-compressed [defaults ; user priorities] objective
\* ranks all feasible points of the specified polyhedron lexicographically by levels; hence a feasible prioritised
\* item is selected, and without priorities the optimum avoids every non-default branch it can and is stingy
CfgPrios == LET L == SetToSeq(RLeafIds(focus)) IN
            {EmptyFn} \cup { (L[i] :> v) : i \in DOMAIN L, v \in {-2, -1, 1, 2} }
                     \cup { (L[i] :> v) @@ (L[k] :> u) : i \in DOMAIN L, k \in DOMAIN L, v \in {1, 2}, u \in {-1, 1, 2} }
C14 == (focus.c = "Cfg" /\ WellDefined(F)) =>
         LET sp == SpecPoly(F)  P == PolyPts(sp) IN
         \A pr \in CfgPrios : LET Xl == LevelMatrix(sp.cols, sp.dpv, pr)  w == Shadow(Xl) IN
            /\ RanksOn(Xl, w, P)
            \* a feasible prioritised item (positive priority, alone at the top level) is selected by every optimum
            /\ \A j \in DOMAIN sp.cols : (sp.cols[j].id \in DOMAIN pr /\ pr[sp.cols[j].id] > 0
                                            /\ (\A i \in DOMAIN pr : i # sp.cols[j].id => Abs(pr[i]) < pr[sp.cols[j].id])
                                            /\ (\E x \in P : x[j] = 1))
                                          => \A x \in ArgMax(w, P) : x[j] >= 1
C15 == C14
\* C16 / C17 on the specification: the abstract JSON codec (recipe -> document -> recipe) and the base64 codec are
\* identities on recipes, so the round trip rebuilds the same node; what is stated here is that the node a
\* recipe denotes is determined by the recipe (Mk is a function) and has the recipe's leaves.
C16 == ~IsAtom(F) => LeafIds(F) = RLeafIds(focus)
C17 == C16
\* C10: the two classes of models validation must accept are well defined; outside adversarial mode
\* the builder produces nothing else
C10 == /\ (~IsAtom(F) /\ (TreeDistinct(F) \/ SharesIdenticalOnly(F))) => WellDefined(F)
       /\ (~Adversarial /\ ~IsAtom(F)) => (SharesIdenticalOnly(F) /\ WellDefined(F))
=============================================================================
