------------------------------ MODULE PuanAPI ------------------------------
(***************************************************************************)
(* The public API as a machine over a store of live objects (C09, C18).    *)
(* Every query is specified to leave every live object unchanged           *)
(* (Purity) and to return a result that depends only on the definition of  *)
(* the object it is called on (Determinism: no hidden state).  What the    *)
(* implementation at the pinned commit does differently is modelled as a   *)
(* NAMED deviation, enabled through the constant Deviations:               *)
(*   "assume_own_id_leak"  assume()/evaluate()/evaluate_propositions()     *)
(*       with a dictionary naming a sub-proposition's own id overwrite     *)
(*       that sub-proposition's stored bounds (known finding D2).          *)
(* The intended design is Deviations = {}.                                 *)
(* Configurators are extended by Add (C18): the result is the configurator *)
(* built directly from the old rules followed by the new one.              *)
(***************************************************************************)
EXTENDS PuanPrioOps

CONSTANTS Pairs,        \* set of <<recipe of h1, recipe of h2>> the two handles may be bound to
          Ops,          \* the operations explored
          DictVals,     \* values a named sub-proposition id may get in a dictionary argument
          MaxLen,       \* length of the explored call histories
          Deviations,   \* subset of {"assume_own_id_leak"}
          RuleCat       \* set of rule recipes that may be added to a configurator

VARIABLES store,        \* handle -> Node (the abstract value of the live object)
          rcp,          \* handle -> recipe it was built from / extended to
          hist          \* the calls made so far: sequence of [h, op, d, rule]
vars == <<store, rcp, hist>>

(* ---- the deviation: which bounds a dictionary overwrites, mirroring the traversal of assume ---- *)
RECURSIVE Leak(_, _)
Leak(n, D) ==
  IF IsAtom(n) THEN n
  ELSE LET own == IF Has(D, n.id) THEN D[n.id] ELSE <<n.lo, n.hi>>
           n1 == [n EXCEPT !.lo = own[1], !.hi = own[2]]
       IN IF Const(own) THEN n1
          ELSE [n1 EXCEPT !.kids = [ i \in DOMAIN n.kids |-> Leak(n.kids[i], D) ]]

(* ---- arguments explored: every leaf at its lower bound, optionally one sub-proposition id named ---- *)
LeafLow(n) == [ i \in LeafIds(n) |-> <<LeafLo(n, i), LeafLo(n, i)>> ]
Handles == {"h1", "h2"}
\* ... or one leaf given as its whole declared range (a tuple / Bounds value instead of an integer)
LeafRange(n, lf) == [ i \in LeafIds(n) |-> IF i = lf THEN <<LeafLo(n, i), LeafHi(n, i)>> ELSE <<LeafLo(n, i), LeafLo(n, i)>> ]
Dicts(n) == {LeafLow(n)} \cup { LeafLow(n) @@ (c :> v) : c \in CompIds(n), v \in DictVals }
            \cup { LeafRange(n, lf) : lf \in { i \in LeafIds(n) : LeafLo(n, i) < LeafHi(n, i) } }
\* reload_b64: the handle is re-bound to the object unpacked from the object's own base64 string; by the design this is the same
\* model (C17), so the action is a plain call: neither the store nor the bindings change
\* solve: solve() with a solver callable supplied by the caller; builtin: solve() / select() with the library's own (default) solver;
\* select_raise: select() with a solver callable that raises (the call ends with InfeasibleError and leaves nothing behind)
QueryOps == {"evaluate", "evaluate_all", "assume", "reduce", "negate", "errors", "to_json", "to_b64", "to_poly", "flatten", "flags", "reload_b64",
             "solve", "builtin"}
CfgOps == {"cfg_poly", "default_prios", "leafs", "select", "select_raise"}
IsCfg(n) == ~IsAtom(n) /\ n.cls = "StingyConfigurator"

Init == /\ \E p \in Pairs : rcp = ("h1" :> p[1]) @@ ("h2" :> p[2])
        /\ store = [ h \in Handles |-> Mk(rcp[h]) ]
        /\ hist = <<>>

\* a query with a dictionary argument
DictCall(h, op) ==
  /\ op \in {"evaluate", "evaluate_all", "assume"}
  /\ \E D \in Dicts(store[h]) :
       /\ hist' = Append(hist, [h |-> h, op |-> op, d |-> D, rule |-> <<>>])
       /\ store' = IF "assume_own_id_leak" \in Deviations THEN [store EXCEPT ![h] = Leak(store[h], D)] ELSE store
  /\ UNCHANGED rcp
PlainCall(h, op) ==
  /\ op \in (QueryOps \ {"evaluate", "evaluate_all", "assume"}) \cup (IF IsCfg(store[h]) THEN CfgOps ELSE {})
  /\ hist' = Append(hist, [h |-> h, op |-> op, d |-> EmptyFn, rule |-> <<>>])
  /\ UNCHANGED <<store, rcp>>
\* add(rule): the handle is re-bound to the extended configurator (the old one stays what it was: it is not in the store any more,
\* the trace records it separately); refused when the rule's id names an existing top level rule or item
TopIds(r) == { Mk(r.a[i]).id : i \in DOMAIN r.a }
CanAdd(r, rule) == Mk(rule).id \notin TopIds(r)
\* add() passes the old id on explicitly, also when it had been generated
AddRule(r, rule) == [r EXCEPT !.a = Append(r.a, rule), !.id = Mk(r).id]
Add(h) ==
  /\ IsCfg(store[h])
  /\ \E rule \in RuleCat :
       /\ hist' = Append(hist, [h |-> h, op |-> "add", d |-> EmptyFn, rule |-> rule])
       /\ IF CanAdd(rcp[h], rule)
          THEN /\ rcp' = [rcp EXCEPT ![h] = AddRule(rcp[h], rule)]
               /\ store' = [store EXCEPT ![h] = Mk(AddRule(rcp[h], rule))]
          ELSE UNCHANGED <<store, rcp>>
\* add(rule) made for its result only: the caller goes on with the configurator it had (which add() leaves as it was)
AddQ(h) ==
  /\ IsCfg(store[h])
  /\ \E rule \in RuleCat : hist' = Append(hist, [h |-> h, op |-> "add_q", d |-> EmptyFn, rule |-> rule])
  /\ UNCHANGED <<store, rcp>>
Next == /\ Len(hist) < MaxLen
        /\ \E h \in Handles : (\E op \in Ops : DictCall(h, op) \/ PlainCall(h, op)) \/ ("add" \in Ops /\ Add(h)) \/ ("add_q" \in Ops /\ AddQ(h))
Spec == Init /\ [][Next]_vars

(* ---- properties -------------------------------------------------------------------------------- *)
LastIsAdd == hist # <<>> /\ hist[Len(hist)].op = "add"
\* C09: no call changes any live object (add re-binds its handle to a NEW object)
Purity == [][\A h \in Handles : store'[h] = store[h] \/ (hist'[Len(hist')].op = "add" /\ hist'[Len(hist')].h = h)]_vars
\* every object in the store is what its recipe denotes: results can be specified from the definition alone
Determinism == \A h \in Handles : store[h] = Mk(rcp[h])
\* C18: any sequence of additions equals direct construction; the id is kept
AddIsBuild == \A h \in Handles : IsCfg(store[h]) => store[h] = Mk(rcp[h]) /\ Len(store[h].kids) = Len(rcp[h].a)
IdKept == [][\A h \in Handles : store'[h].id = store[h].id]_vars
=============================================================================
