--------------------------- MODULE IntervalSound ---------------------------
(***************************************************************************)
(* Unbounded-integer lemma behind C06 (Apalache, one step): a node         *)
(* s * (x1 + x2 + x3) >= k whose children are only known to lie in         *)
(* arbitrary integer intervals [l_i, h_i].  The interval evaluation        *)
(* (PuanModel.Iv: lower = [min >= k], upper = [max >= k]) contains the     *)
(* node's value at every completion; a reported constant is never          *)
(* contradicted; "tautology" (min - k >= 0) and "contradiction"            *)
(* (max - k < 0) are sound, and the equation bounds are attained at the    *)
(* corners of the box (so they are the exact range, PuanModel.EqBounds).   *)
(***************************************************************************)
EXTENDS Integers
VARIABLES
  \* @type: Int;
  l1,
  \* @type: Int;
  h1,
  \* @type: Int;
  l2,
  \* @type: Int;
  h2,
  \* @type: Int;
  l3,
  \* @type: Int;
  h3,
  \* @type: Int;
  x1,
  \* @type: Int;
  x2,
  \* @type: Int;
  x3,
  \* @type: Int;
  k,
  \* @type: Int;
  s

Init == /\ l1 \in Int /\ h1 \in Int /\ l2 \in Int /\ h2 \in Int /\ l3 \in Int /\ h3 \in Int
        /\ x1 \in Int /\ x2 \in Int /\ x3 \in Int /\ k \in Int /\ s \in {-1, 1}
        /\ l1 <= x1 /\ x1 <= h1 /\ l2 <= x2 /\ x2 <= h2 /\ l3 <= x3 /\ x3 <= h3
Next == UNCHANGED <<l1, h1, l2, h2, l3, h3, x1, x2, x3, k, s>>

Lhs == s * (x1 + x2 + x3)
MinLhs == IF s = 1 THEN l1 + l2 + l3 ELSE -h1 - h2 - h3
MaxLhs == IF s = 1 THEN h1 + h2 + h3 ELSE -l1 - l2 - l3
Eval == IF Lhs >= k THEN 1 ELSE 0
IvLo == IF MinLhs >= k THEN 1 ELSE 0
IvHi == IF MaxLhs >= k THEN 1 ELSE 0
Contains == IvLo <= Eval /\ Eval <= IvHi
ConstRight == (IvLo = IvHi) => Eval = IvLo
\* equation bounds (min - k, max - k) bound the node's equation on the box ...
EqLo == MinLhs - k
EqHi == MaxLhs - k
EqContain == EqLo <= Lhs - k /\ Lhs - k <= EqHi
Taut == (EqLo >= 0) => Eval = 1
Contra == (EqHi < 0) => Eval = 0
\* ... and are attained: the lower (upper) corner of the box gives exactly EqLo (EqHi)
CornerLo == IF s = 1 THEN s * (l1 + l2 + l3) ELSE s * (h1 + h2 + h3)
CornerHi == IF s = 1 THEN s * (h1 + h2 + h3) ELSE s * (l1 + l2 + l3)
Attained == CornerLo - k = EqLo /\ CornerHi - k = EqHi
Inv == Contains /\ ConstRight /\ EqContain /\ Taut /\ Contra /\ Attained
\* negative control: an interval evaluation that ignores the sign (bounds not swapped for s = -1) is refuted
MinBad == l1 + l2 + l3
InvBad == (IF s * MinBad >= k THEN 1 ELSE 0) <= Eval
=============================================================================
