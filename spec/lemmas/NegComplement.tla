--------------------------- MODULE NegComplement ---------------------------
(***************************************************************************)
(* Unbounded-integer lemma behind C05 (Apalache, one step): the node       *)
(* s * (x1 + x2 + x3) >= k and its sign-flipped negation                   *)
(* -s * (x1 + x2 + x3) >= -(k - 1)  (PuanModel.Neg on a node whose         *)
(* children are not pushed into) are exact complements on all integers;    *)
(* and the inward push used for value-1 groups over non-negative children  *)
(* (not (x1 + x2 + x3 >= 1)  ==  every child is 0  ==  -(x1+x2+x3) >= 0)   *)
(* is exact.                                                               *)
(***************************************************************************)
EXTENDS Integers
VARIABLES
  \* @type: Int;
  x1,
  \* @type: Int;
  x2,
  \* @type: Int;
  x3,
  \* @type: Int;
  k,
  \* @type: Int;
  s

Init == x1 \in Int /\ x2 \in Int /\ x3 \in Int /\ k \in Int /\ s \in {-1, 1}
Next == UNCHANGED <<x1, x2, x3, k, s>>
Eval(sg, v) == IF sg * (x1 + x2 + x3) >= v THEN 1 ELSE 0
Complement == Eval(-s, -(k - 1)) = 1 - Eval(s, k)
NonNeg == x1 >= 0 /\ x2 >= 0 /\ x3 >= 0
Group == NonNeg => ((Eval(1, 1) = 0) <=> (x1 = 0 /\ x2 = 0 /\ x3 = 0))
\* negation twice gives the node back
Twice == Eval(s, -(-(k - 1) - 1)) = Eval(s, k)
Inv == Complement /\ Group /\ Twice
\* negative control: flipping the sign and the threshold without the "- 1" is not the complement
InvBad == Eval(-s, -k) = 1 - Eval(s, k)
=============================================================================
