----------------------------- MODULE RowImplied -----------------------------
(***************************************************************************)
(* Unbounded-integer lemma behind C11 / C12 (Apalache, one step): for a    *)
(* row A1*x1 + A2*x2 + A3*x3 >= b with coefficients in -3..3 and arbitrary *)
(* integer bounds and right-hand side: the closed forms used by            *)
(* row_bounds() (sum of A_min - b, sum of A_max - b; PuanPolyOps.RowLo /   *)
(* RowHi) bound the row on the whole box and are attained at a corner      *)
(* (exact range); a row whose lower bound is >= 0 (reducable_rows) holds   *)
(* at every in-bounds point, and a row whose upper bound is < 0 has no     *)
(* in-bounds solution.                                                     *)
(***************************************************************************)
EXTENDS Integers
CONSTANTS
  \* @type: Int;
  A1,
  \* @type: Int;
  A2,
  \* @type: Int;
  A3
VARIABLES
  \* @type: Int;
  lo1,
  \* @type: Int;
  hi1,
  \* @type: Int;
  lo2,
  \* @type: Int;
  hi2,
  \* @type: Int;
  lo3,
  \* @type: Int;
  hi3,
  \* @type: Int;
  x1,
  \* @type: Int;
  x2,
  \* @type: Int;
  x3,
  \* @type: Int;
  b

ConstInit == A1 \in -3..3 /\ A2 \in -3..3 /\ A3 \in -3..3
AMax(a, lo, hi) == IF a > 0 THEN a * hi ELSE IF a < 0 THEN a * lo ELSE 0
AMin(a, lo, hi) == IF a > 0 THEN a * lo ELSE IF a < 0 THEN a * hi ELSE 0
Init == /\ lo1 \in Int /\ hi1 \in Int /\ lo2 \in Int /\ hi2 \in Int /\ lo3 \in Int /\ hi3 \in Int
        /\ x1 \in Int /\ x2 \in Int /\ x3 \in Int /\ b \in Int
        /\ lo1 <= x1 /\ x1 <= hi1 /\ lo2 <= x2 /\ x2 <= hi2 /\ lo3 <= x3 /\ x3 <= hi3
Next == UNCHANGED <<lo1, hi1, lo2, hi2, lo3, hi3, x1, x2, x3, b>>
Lhs == A1 * x1 + A2 * x2 + A3 * x3
RowLo == AMin(A1, lo1, hi1) + AMin(A2, lo2, hi2) + AMin(A3, lo3, hi3) - b
RowHi == AMax(A1, lo1, hi1) + AMax(A2, lo2, hi2) + AMax(A3, lo3, hi3) - b
Bound == RowLo <= Lhs - b /\ Lhs - b <= RowHi
Implied == (RowLo >= 0) => Lhs >= b
Empty == (RowHi < 0) => ~(Lhs >= b)
\* the corner that attains the lower bound: each column at the end its coefficient's sign points away from
C(a, lo, hi) == IF a > 0 THEN lo ELSE hi
AttainedLo == A1 * C(A1, lo1, hi1) + A2 * C(A2, lo2, hi2) + A3 * C(A3, lo3, hi3) - b = RowLo
AttainedHi == A1 * C(-A1, lo1, hi1) + A2 * C(-A2, lo2, hi2) + A3 * C(-A3, lo3, hi3) - b = RowHi
Inv == Bound /\ Implied /\ Empty /\ AttainedLo /\ AttainedHi
\* negative control: lower bounds ignored (columns assumed to start at 0) - the seeded change C11-2 - is refuted
RowLoBad == AMin(A1, 0, hi1) + AMin(A2, 0, hi2) + AMin(A3, 0, hi3) - b
InvBad == (RowLoBad >= 0) => Lhs >= b
=============================================================================
