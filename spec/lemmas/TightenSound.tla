---------------------------- MODULE TightenSound ----------------------------
(***************************************************************************)
(* Unbounded-integer lemma behind C12 (Apalache, one step): for a row      *)
(* A1*x1 + A2*x2 >= b with coefficients in -3..3, arbitrary integer bounds *)
(* and right-hand side, the candidate bound computed by                    *)
(* tighten_column_bounds, floor(-(row_ub - A_max_1) / A1), never cuts off  *)
(* an in-bounds solution (PuanPolyOps.Cand).                               *)
(***************************************************************************)
EXTENDS Integers
CONSTANTS
  \* @type: Int;
  A1,
  \* @type: Int;
  A2
VARIABLES
  \* @type: Int;
  lo1,
  \* @type: Int;
  hi1,
  \* @type: Int;
  lo2,
  \* @type: Int;
  hi2,
  \* @type: Int;
  x1,
  \* @type: Int;
  x2,
  \* @type: Int;
  b

ConstInit == A1 \in -3..3 /\ A2 \in -3..3
FloorDiv(a, d) == IF d > 0 THEN a \div d ELSE (-a) \div (-d)
AMax(a, lo, hi) == IF a > 0 THEN a * hi ELSE IF a < 0 THEN a * lo ELSE 0

Init == /\ lo1 \in Int /\ hi1 \in Int /\ lo2 \in Int /\ hi2 \in Int /\ x1 \in Int /\ x2 \in Int /\ b \in Int
        /\ lo1 <= x1 /\ x1 <= hi1 /\ lo2 <= x2 /\ x2 <= hi2
        /\ A1 * x1 + A2 * x2 >= b
Next == UNCHANGED <<lo1, hi1, lo2, hi2, x1, x2, b>>

RowUb == AMax(A1, lo1, hi1) + AMax(A2, lo2, hi2) - b
Cand1 == FloorDiv(-(RowUb - AMax(A1, lo1, hi1)), A1)
Inv == IF A1 > 0 THEN Cand1 <= x1 ELSE IF A1 < 0 THEN x1 <= Cand1 ELSE TRUE
\* negative control: a bound one tighter does cut off solutions
InvBad == IF A1 > 0 THEN Cand1 + 1 <= x1 ELSE IF A1 < 0 THEN x1 <= Cand1 - 1 ELSE TRUE
=============================================================================
