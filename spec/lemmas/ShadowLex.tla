----------------------------- MODULE ShadowLex -----------------------------
(***************************************************************************)
(* Unbounded-integer lemma behind C13 / C14 (Apalache, one step): four     *)
(* columns with levels lv[j] (any integers: the order of the levels is     *)
(* what matters), signs sg[j], and ANY integer weights w[j] that have the  *)
(* features the property states (PuanPrioOps.ShadowOK: sign kept, equal    *)
(* levels equal magnitude, lower level smaller magnitude, every magnitude  *)
(* strictly larger than the sum of the magnitudes of all lower levels).    *)
(* Then the weights rank any two 0/1 points exactly like the lexicographic *)
(* order by levels (PuanPrioOps.RanksOn): at the highest level where the   *)
(* points' signed selections differ, the smaller one has the smaller       *)
(* score; equal on every level means equal scores.                         *)
(***************************************************************************)
EXTENDS Integers
VARIABLES
  \* @type: Int -> Int;
  lv,
  \* @type: Int -> Int;
  sg,
  \* @type: Int -> Int;
  w,
  \* @type: Int -> Int;
  x,
  \* @type: Int -> Int;
  y

C == 1..4
Abs(v) == IF v < 0 THEN -v ELSE v
LF(j, k) == IF lv[k] < lv[j] THEN Abs(w[k]) ELSE 0
LowerSum(j) == LF(j, 1) + LF(j, 2) + LF(j, 3) + LF(j, 4)
ShadowOK == /\ \A j \in C : (sg[j] = 1 => w[j] > 0) /\ (sg[j] = -1 => w[j] < 0)
            /\ \A j, k \in C : (lv[j] = lv[k] => Abs(w[j]) = Abs(w[k])) /\ (lv[j] < lv[k] => Abs(w[j]) < Abs(w[k]))
            /\ \A j \in C : Abs(w[j]) > LowerSum(j)
Init == /\ lv \in [C -> Int] /\ sg \in [C -> {-1, 1}] /\ w \in [C -> Int]
        /\ x \in [C -> {0, 1}] /\ y \in [C -> {0, 1}]
        /\ ShadowOK
Next == UNCHANGED <<lv, sg, w, x, y>>

\* @type: (Int -> Int) => Int;
Score(p) == w[1] * p[1] + w[2] * p[2] + w[3] * p[3] + w[4] * p[4]
\* @type: (Int -> Int, Int, Int) => Int;
SF(p, l, j) == IF lv[j] = l THEN sg[j] * p[j] ELSE 0
\* @type: (Int -> Int, Int) => Int;
LvScore(p, l) == SF(p, l, 1) + SF(p, l, 2) + SF(p, l, 3) + SF(p, l, 4)
LexLess == \E j \in C : /\ LvScore(x, lv[j]) < LvScore(y, lv[j])
                        /\ \A k \in C : lv[k] > lv[j] => LvScore(x, lv[k]) = LvScore(y, lv[k])
LexSame == \A j \in C : LvScore(x, lv[j]) = LvScore(y, lv[j])
Inv == (LexLess <=> Score(x) < Score(y)) /\ (LexSame => Score(x) = Score(y))
\* negative control: with ">=" in place of ">" in the dominance condition the ranking can fail; here: the claim that a
\* merely order preserving weight vector (without dominance) ranks lexicographically is refuted
OrderOnly == /\ \A j \in C : (sg[j] = 1 => w[j] > 0) /\ (sg[j] = -1 => w[j] < 0)
             /\ \A j, k \in C : (lv[j] = lv[k] => Abs(w[j]) = Abs(w[k])) /\ (lv[j] < lv[k] => Abs(w[j]) < Abs(w[k]))
InitBad == /\ lv \in [C -> Int] /\ sg \in [C -> {-1, 1}] /\ w \in [C -> Int]
           /\ x \in [C -> {0, 1}] /\ y \in [C -> {0, 1}]
           /\ OrderOnly
InvBad == LexLess => Score(x) < Score(y)
=============================================================================
