------------------------------ MODULE BigMRow ------------------------------
(***************************************************************************)
(* Unbounded-integer lemma behind C01 (Apalache, one step): for a node     *)
(* sign * (x1 + x2 + x3) >= k over arbitrary integer child bounds, with    *)
(* M = k - min(sign * sum), the big-M row  sign*sum - M*v >= k - M  holds  *)
(* for v = truth value of the node, and the asserted row holds exactly     *)
(* when the node is true.  (PuanModel.Row / MinLhs with three children.)   *)
(***************************************************************************)
EXTENDS Integers
VARIABLES
  \* @type: Int;
  lo1,
  \* @type: Int;
  hi1,
  \* @type: Int;
  lo2,
  \* @type: Int;
  hi2,
  \* @type: Int;
  lo3,
  \* @type: Int;
  hi3,
  \* @type: Int;
  x1,
  \* @type: Int;
  x2,
  \* @type: Int;
  x3,
  \* @type: Int;
  k,
  \* @type: Int;
  s

Init == /\ lo1 \in Int /\ hi1 \in Int /\ lo2 \in Int /\ hi2 \in Int /\ lo3 \in Int /\ hi3 \in Int
        /\ x1 \in Int /\ x2 \in Int /\ x3 \in Int /\ k \in Int /\ s \in {-1, 1}
        /\ lo1 <= x1 /\ x1 <= hi1 /\ lo2 <= x2 /\ x2 <= hi2 /\ lo3 <= x3 /\ x3 <= hi3
Next == UNCHANGED <<lo1, hi1, lo2, hi2, lo3, hi3, x1, x2, x3, k, s>>

MinLhs == IF s = 1 THEN lo1 + lo2 + lo3 ELSE -hi1 - hi2 - hi3
M == k - MinLhs
Eval == IF s * (x1 + x2 + x3) >= k THEN 1 ELSE 0
RowHolds == s * (x1 + x2 + x3) - M * Eval >= k - M
TopRow == (s * (x1 + x2 + x3) >= k) <=> (Eval = 1)
\* only the evaluated value satisfies the row when the node is false and M > 0 (one-directional big-M: v = 1 forces the constraint)
Forces == (Eval = 0) => ~(s * (x1 + x2 + x3) - M * 1 >= k - M)
Inv == RowHolds /\ TopRow /\ Forces
\* negative control: with M one too small the row can fail
MBad == M - 1
InvBad == s * (x1 + x2 + x3) - MBad * Eval >= k - MBad
=============================================================================
