---------------------------- MODULE PuanPolyOps ----------------------------
(***************************************************************************)
(* Integer polyhedra  A x >= b  over bounded integer columns: pure         *)
(* operators (solution sets, row/column bounds, bound tightening,          *)
(* reducible rows / forced columns, reduction steps, point classification, *)
(* id/position bridges) and the trace verdicts of C11, C12, C19, C20.      *)
(*   rows : Seq([b |-> Int, a |-> Seq(Int)])                               *)
(*   cols : Seq([id, lo, hi])                                              *)
(***************************************************************************)
EXTENDS PuanModel

MinInt == -32768
MaxInt == 32767

RECURSIVE MaxSeq(_)
MaxSeq(s) == IF Len(s) = 1 THEN s[1] ELSE Max2(Head(s), MaxSeq(Tail(s)))
RECURSIVE MinSeq(_)
MinSeq(s) == IF Len(s) = 1 THEN s[1] ELSE Min2(Head(s), MinSeq(Tail(s)))
\* floor division for any non-zero divisor
FloorDiv(a, b) == IF b > 0 THEN a \div b ELSE (-a) \div (-b)

(* ---- boxes and solution sets (points are functions column position -> Int) -- *)
PBox(cols) == RangeProduct(DOMAIN cols, [ j \in DOMAIN cols |-> cols[j].lo ], [ j \in DOMAIN cols |-> cols[j].hi ])
Lhs(r, x) == SumSeq([ j \in DOMAIN r.a |-> r.a[j] * x[j] ])
RowOk(r, x) == Lhs(r, x) >= r.b
PSol(rows, cols) == { x \in PBox(cols) : \A i \in DOMAIN rows : RowOk(rows[i], x) }
WellFormed(rows, cols) == \A i \in DOMAIN rows : Len(rows[i].a) = Len(cols)

(* ---- row bounds, as implemented (interval arithmetic) and as defined (enumeration) *)
AMaxE(a, c) == IF a > 0 THEN a * c.hi ELSE IF a < 0 THEN a * c.lo ELSE 0
AMinE(a, c) == IF a > 0 THEN a * c.lo ELSE IF a < 0 THEN a * c.hi ELSE 0
RowUb(r, cols) == SumSeq([ j \in DOMAIN cols |-> AMaxE(r.a[j], cols[j]) ]) - r.b
RowLb(r, cols) == SumSeq([ j \in DOMAIN cols |-> AMinE(r.a[j], cols[j]) ]) - r.b
RowRange(r, cols) == { Lhs(r, x) - r.b : x \in PBox(cols) }
\* number of distinct valuations of the columns the row actually mentions
NComb(r, cols) == Cardinality({ [ j \in { j \in DOMAIN cols : r.a[j] # 0 } |-> x[j] ] : x \in PBox(cols) })
NCombFormula(r, cols) == LET RECURSIVE P(_)
                             P(j) == IF j > Len(cols) THEN 1
                                     ELSE (IF r.a[j] # 0 THEN cols[j].hi - cols[j].lo + 1 ELSE 1) * P(j + 1)
                         IN P(1)

(* ---- bound tightening, transcribed (floor arithmetic, int16 sentinels) -------- *)
Cand(r, cols, j) == FloorDiv(-(RowUb(r, cols) - AMaxE(r.a[j], cols[j])), r.a[j])
Tighten(rows, cols) ==
  [ j \in DOMAIN cols |->
      IF rows = <<>> THEN [lo |-> cols[j].lo, hi |-> cols[j].hi]
      ELSE LET lbs == [ i \in DOMAIN rows |-> IF rows[i].a[j] > 0 THEN Cand(rows[i], cols, j) ELSE MinInt ]
               ubs == [ i \in DOMAIN rows |-> IF rows[i].a[j] < 0 THEN Cand(rows[i], cols, j) ELSE MaxInt ]
               lbm == MaxSeq(lbs)  ubm == MinSeq(ubs)
           IN [ lo |-> IF lbm > cols[j].lo THEN lbm ELSE cols[j].lo,
                hi |-> IF ubm < cols[j].hi THEN ubm ELSE cols[j].hi ] ]
RedRows(rows, cols) == [ i \in DOMAIN rows |-> RowLb(rows[i], cols) >= 0 ]
\* forced columns ("nan" = not fixed)
RedCols(rows, cols) == LET t == Tighten(rows, cols) IN
  [ j \in DOMAIN cols |-> [fixed |-> t[j].lo = t[j].hi, val |-> t[j].lo] ]

(* ---- reduction steps ------------------------------------------------------------ *)
KeepIdx(n, keep(_)) == SelectSeq([ j \in 1..n |-> j ], keep)
\* move fixed columns (cv[j].fixed) into b and drop them
ReduceCols(rows, cols, cv) ==
  LET keepJ == KeepIdx(Len(cols), LAMBDA j : ~cv[j].fixed)
  IN [ rows |-> [ i \in DOMAIN rows |->
                   [ b |-> rows[i].b - SumSeq([ j \in DOMAIN cols |-> IF cv[j].fixed THEN rows[i].a[j] * cv[j].val ELSE 0 ]),
                     a |-> [ k \in DOMAIN keepJ |-> rows[i].a[keepJ[k]] ] ] ],
       cols |-> [ k \in DOMAIN keepJ |-> cols[keepJ[k]] ] ]
ReduceRows(rows, rv) == LET keepI == KeepIdx(Len(rows), LAMBDA i : ~rv[i]) IN [ k \in DOMAIN keepI |-> rows[keepI[k]] ]

\* C11 as a relation between an original polyhedron, the fixed columns so far and a current polyhedron:
\* every solution of the original is a solution of the current one extended with the fixed values, and vice versa.
\* cur columns are identified with original columns by id.
ColPos(cols, id) == CHOOSE j \in DOMAIN cols : cols[j].id = id
ProjOK(rows0, cols0, cv, rows1, cols1) ==
  LET kept == { cols1[k].id : k \in DOMAIN cols1 }
      lift(y) == [ j \in DOMAIN cols0 |-> IF cols0[j].id \in kept THEN y[ColPos(cols1, cols0[j].id)] ELSE cv[j].val ]
  IN /\ \A j \in DOMAIN cols0 : (cols0[j].id \in kept) <=> ~cv[j].fixed
     /\ PSol(rows0, cols0) = { lift(y) : y \in PSol(rows1, cols1) }

(* ---- point classification (C19): nested sequences of points -------------------- *)
SatPt(rows, x) == \A i \in DOMAIN rows : RowOk(rows[i], x)
B01(t) == IF t THEN 1 ELSE 0
Sat1(rows, p) == B01(SatPt(rows, p))
Sat2(rows, P) == [ k \in DOMAIN P |-> Sat1(rows, P[k]) ]
Sat3(rows, T) == [ g \in DOMAIN T |-> Sat2(rows, T[g]) ]
Sep1(rows, p) == B01(~SatPt(rows, p))
Sep2(rows, P) == [ k \in DOMAIN P |-> Sep1(rows, P[k]) ]
Sep3(rows, T) == [ g \in DOMAIN T |-> Sep2(rows, T[g]) ]
\* per row: does some point of the group violate that row
RowSep2(rows, P) == [ i \in DOMAIN rows |-> B01(\E k \in DOMAIN P : ~RowOk(rows[i], P[k])) ]
RowSep1(rows, p) == RowSep2(rows, <<p>>)
RowSep3(rows, T) == [ g \in DOMAIN T |-> RowSep2(rows, T[g]) ]

(* ---- trace verdicts --------------------------------------------------------------- *)
PFail(c, ok) == IF ok THEN {} ELSE {c}
CV(e) == [ j \in DOMAIN e.fixed |-> [fixed |-> e.fixed[j], val |-> e.val[j]] ]
FlagsB(s) == [ i \in DOMAIN s |-> s[i] = 1 ]

\* one-shot reducable_rows_and_columns() + reduce(), with the loop's hook events
EvReduceOneShot(e) ==
  LET rows == e.rows  cols == e.cols
      cv == CV(e)
      fr == FlagsB(e.full_rows)
      red == e.reduced
      stepOK(s) == LET scv == [ j \in DOMAIN s.fixed |-> [fixed |-> s.fixed[j], val |-> s.val[j]] ]
                       kept == { s.cols[k].id : k \in DOMAIN s.cols }
                   IN /\ WellFormed(s.rows, s.cols)
                      /\ \A j \in DOMAIN cols : (cols[j].id \in kept) <=> ~scv[j].fixed
                      /\ ProjOK(rows, cols, scv, s.rows, s.cols)
  IN IF ~WellFormed(rows, cols) THEN {"outside_domain"} ELSE
     PFail("shape", Len(e.full_rows) = Len(rows) /\ Len(e.fixed) = Len(cols) /\ WellFormed(red.rows, red.cols))
     \cup PFail("rows_implied", \A i \in DOMAIN rows : fr[i] => \A x \in PBox(cols) :
                                     (\A j \in DOMAIN cols : cv[j].fixed => x[j] = cv[j].val) => RowOk(rows[i], x))
     \cup PFail("cols_forced", \A j \in DOMAIN cols : cv[j].fixed => \A x \in PSol(rows, cols) : x[j] = cv[j].val)
     \cup PFail("projection", ProjOK(rows, cols, cv, red.rows, red.cols))
     \cup PFail("labels", /\ [ k \in DOMAIN red.cols |-> red.cols[k].id ] = [ k \in DOMAIN KeepIdx(Len(cols), LAMBDA j : ~cv[j].fixed) |-> cols[KeepIdx(Len(cols), LAMBDA j : ~cv[j].fixed)[k]].id ]
                          /\ red.index = [ k \in DOMAIN KeepIdx(Len(rows), LAMBDA i : ~fr[i]) |-> e.index[KeepIdx(Len(rows), LAMBDA i : ~fr[i])[k]] ]
                          /\ \A k \in DOMAIN red.cols : \E j \in DOMAIN cols : cols[j] = red.cols[k])
     \cup PFail("loop_inv", \A k \in DOMAIN e.steps : stepOK(e.steps[k]))

\* the public sub-operations, one call each on a fresh polyhedron
EvReduceOps(e) ==
  LET rows == e.rows  cols == e.cols
      rr == FlagsB(e.red_rows)
      cv == CV(e)
  IN IF ~WellFormed(rows, cols) THEN {"outside_domain"} ELSE
     PFail("shape", Len(e.red_rows) = Len(rows) /\ Len(e.fixed) = Len(cols))
     \cup PFail("rows_implied", \A i \in DOMAIN rows : rr[i] => \A x \in PBox(cols) : RowOk(rows[i], x))
     \cup PFail("cols_forced", \A j \in DOMAIN cols : cv[j].fixed => \A x \in PSol(rows, cols) : x[j] = cv[j].val)
     \cup PFail("reduce_cols_fn", LET s == ReduceCols(rows, cols, cv) IN e.after_cols.rows = s.rows /\ e.after_cols.cols = s.cols
                                     /\ e.after_cols.index = e.index)
     \cup PFail("reduce_rows_fn", e.after_rows.rows = ReduceRows(rows, rr) /\ e.after_rows.cols = cols
                                     /\ e.after_rows.index = ReduceRows(e.index, rr))

\* C12
EvTighten(e) ==
  LET rows == e.rows  cols == e.cols
      S == IF e.wide THEN {} ELSE PSol(rows, cols)
      lb == e.tight[1]  ub == e.tight[2]
  IN IF ~WellFormed(rows, cols) THEN {"outside_domain"} ELSE
     PFail("shape", Len(lb) = Len(cols) /\ Len(ub) = Len(cols) /\ Len(e.rowb) = Len(rows) /\ Len(e.ncomb) = Len(rows)
                    /\ Len(e.colb[1]) = Len(cols) /\ Len(e.colb[2]) = Len(cols))
     \* wide boxes are not enumerated: row bounds and combination counts through the closed forms (PuanPoly.RowBoundsExact states
     \* that they equal the enumeration), containment of solutions is left to the enumerable cases
     \cup (IF e.wide THEN
              \* ... except at the corners of the box (and the points next to them): a solution among them lies within the tightened bounds
              PFail("contain", \A x \in { y \in RangeProduct(DOMAIN cols, [ j \in DOMAIN cols |-> 1 ], [ j \in DOMAIN cols |-> 4 ]) : TRUE } :
                        LET pt == [ j \in DOMAIN cols |-> CASE x[j] = 1 -> cols[j].lo [] x[j] = 2 -> cols[j].hi
                                                              [] x[j] = 3 -> (IF cols[j].lo < cols[j].hi THEN cols[j].lo + 1 ELSE cols[j].lo)
                                                              [] OTHER -> (IF cols[j].lo < cols[j].hi THEN cols[j].hi - 1 ELSE cols[j].hi) ]
                        IN (\A i \in DOMAIN rows : RowOk(rows[i], pt)) => \A j \in DOMAIN cols : lb[j] <= pt[j] /\ pt[j] <= ub[j])
           ELSE
           PFail("contain", \A x \in S : \A j \in DOMAIN cols : lb[j] <= x[j] /\ x[j] <= ub[j])
           \cup PFail("contra_only_if_empty", (\E j \in DOMAIN cols : lb[j] > ub[j]) => S = {}))
     \cup PFail("no_widen", \A j \in DOMAIN cols : lb[j] >= cols[j].lo /\ ub[j] <= cols[j].hi)
     \cup PFail("rowb_exact", \A i \in DOMAIN rows : IF e.wide THEN e.rowb[i] = << RowLb(rows[i], cols), RowUb(rows[i], cols) >>
                                                     ELSE LET v == RowRange(rows[i], cols) IN e.rowb[i] = << SetMin(v), SetMax(v) >>)
     \cup PFail("colb", \A j \in DOMAIN cols : e.colb[1][j] = cols[j].lo /\ e.colb[2][j] = cols[j].hi)
     \cup PFail("ncomb", \A i \in DOMAIN rows : e.ncomb[i] = (IF e.wide THEN NCombFormula(rows[i], cols) ELSE NComb(rows[i], cols)))

\* C19
\* points in any number of dimensions: a vector is a point, a matrix a group of points, every further dimension a stack
RECURSIVE SatN(_, _, _), SepN(_, _, _), RowSepN(_, _, _)
SatN(rows, T, nd) == IF nd <= 1 THEN Sat1(rows, T) ELSE [ g \in DOMAIN T |-> SatN(rows, T[g], nd - 1) ]
SepN(rows, T, nd) == IF nd <= 1 THEN Sep1(rows, T) ELSE [ g \in DOMAIN T |-> SepN(rows, T[g], nd - 1) ]
RowSepN(rows, T, nd) == IF nd <= 1 THEN RowSep1(rows, T) ELSE IF nd = 2 THEN RowSep2(rows, T) ELSE [ g \in DOMAIN T |-> RowSepN(rows, T[g], nd - 1) ]
\* the shape of the answers: that of the points without the last axis (per point), resp. with the last two axes replaced by one entry per
\* row (per row and group); an answer of another shape fails by its shape (values of different shapes cannot be compared)
PerPointShape(ps) == SubSeq(ps, 1, Len(ps) - 1)
PerRowShape(ps, nrows) == IF Len(ps) <= 2 THEN <<nrows>> ELSE SubSeq(ps, 1, Len(ps) - 2) \o <<nrows>>
EvClassify(e) ==
  LET rows == e.rows
      shaped == "shapes" \in DOMAIN e
      okSat == ~shaped \/ e.shapes.sat = PerPointShape(e.pshape)
      okSep == ~shaped \/ e.shapes.sep = PerPointShape(e.pshape)
      okRow == ~shaped \/ e.shapes.rowsep = PerRowShape(e.pshape, Len(rows))
  IN (IF okSat THEN PFail("sat_value", e.sat = SatN(rows, e.points, e.ndim)) ELSE {"sat_value"})
     \cup (IF okSep THEN PFail("sep_value", e.sep = SepN(rows, e.points, e.ndim)) ELSE {"sep_value"})
     \cup (IF okRow THEN PFail("rowsep_value", e.rowsep = RowSepN(rows, e.points, e.ndim)) ELSE {"rowsep_value"})

(* ---- C20: id / position bridges ------------------------------------------------------ *)
\* vars : Seq([id, lo, hi]); d : id -> value pairs; default kind: "lower" (integer dtype), "nan" (float dtype), "fn" (callable, value given per id)
ConstructSpec(vars, d, kind, fnvals) ==
  \* entries are <<0, value>> or <<1, 0>> for NaN
  [ j \in DOMAIN vars |-> IF vars[j].id \in DOMAIN d THEN <<0, d[vars[j].id]>>
                          ELSE IF kind = "fn" THEN <<0, fnvals[vars[j].id]>>
                          ELSE IF kind = "lower" THEN <<0, vars[j].lo>> ELSE <<1, 0>> ]
BoolIdx(vars) == { j - 1 : j \in { j \in DOMAIN vars : vars[j].lo = 0 /\ vars[j].hi = 1 } }      \* 0-based like numpy
IntIdx(vars)  == { j - 1 : j \in { j \in DOMAIN vars : ~(vars[j].lo = 0 /\ vars[j].hi = 1) } }
FirstPos(lst, x) == SetMin({ i \in DOMAIN lst : lst[i] = x })
FromListBool(lst, ctx) == [ j \in DOMAIN ctx |-> B01(\E i \in DOMAIN lst : lst[i] = ctx[j]) ]
FromListInt(lst, ctx)  == [ j \in DOMAIN ctx |-> IF \E i \in DOMAIN lst : lst[i] = ctx[j] THEN FirstPos(lst, ctx[j]) ELSE 0 ]
ToList(arr, vars) == LET keep == KeepIdx(Len(arr), LAMBDA j : arr[j] = 1) IN [ k \in DOMAIN keep |-> vars[keep[k]].id ]

EvConstruct(e) ==
  LET d == PairsFn(e.dict)
      fv == PairsFn(e.fnvals)
  IN PFail("construct", e.res = ConstructSpec(e.vars, d, e.kind, fv))
EvPartition(e) ==
  PFail("partition", /\ { e.bool_idx[i] : i \in DOMAIN e.bool_idx } = BoolIdx(e.vars) /\ Len(e.bool_idx) = Cardinality(BoolIdx(e.vars))
                     /\ { e.int_idx[i] : i \in DOMAIN e.int_idx } = IntIdx(e.vars) /\ Len(e.int_idx) = Cardinality(IntIdx(e.vars)))
EvLists(e) ==
  PFail("from_list_bool", e.bool_ok => e.bool_arr = FromListBool(e.lst, e.ctx))
  \cup PFail("from_list_int", e.int_arr = FromListInt(e.lst, e.ctx))
  \cup PFail("from_list_nested", /\ e.bool_nested = [ g \in DOMAIN e.lsts |-> FromListBool(e.lsts[g], e.ctx) ]
                                 /\ e.int_nested = [ g \in DOMAIN e.lsts |-> FromListInt(e.lsts[g], e.ctx) ])
  \cup PFail("to_list", e.to_list = ToList(e.arr, e.vars))
  \cup PFail("to_list_nested", e.to_list_nested = [ g \in DOMAIN e.arrs |-> ToList(e.arrs[g], e.vars) ]
                                 /\ (("zarrs" \in DOMAIN e) => e.to_list_zero = [ g \in DOMAIN e.zarrs |-> ToList(e.zarrs[g], e.vars) ]))
EvSplitAb(e) ==
  PFail("split_Ab", /\ e.b = [ i \in DOMAIN e.matrix |-> e.matrix[i][1] ]
                    /\ e.A = [ i \in DOMAIN e.matrix |-> Tail(e.matrix[i]) ]
                    /\ e.A_vars = Tail(e.vars) /\ e.A_index = e.index
                    /\ e.linalg_A = e.A /\ e.linalg_b = e.b /\ e.linalg_A_vars = Tail(e.vars))

(* ---- histories of calls on ONE polyhedron object (machine PuanPolyAPI) -------------------------------------------- *)
\* environment actions of the machine: the caller edits the live array in place / re-declares the last column
EditP(p) == [p EXCEPT !.rows[1].a[Len(p.cols)] = @ + 1]
WidenP(p) == [p EXCEPT !.cols[Len(p.cols)].hi = @ + 1]
SameP(p, q) == p.rows = q.rows /\ p.cols = q.cols /\ p.index = q.index
PStepCalls == {"reduce_cols", "reduce_rows", "reduce_both"}
PEnvCalls == {"edit", "widen"}
\* one recorded step, judged against what the object denotes at that point (cur)
PStepV(s, cur) ==
  LET rows == cur.rows  cols == cur.cols
      cv == [ j \in DOMAIN s.fixed |-> [fixed |-> s.fixed[j], val |-> s.val[j]] ]
      rf == FlagsB(s.rflags)
      forced == Len(s.fixed) = Len(cols) /\ \A j \in DOMAIN cols : cv[j].fixed => \A x \in PSol(rows, cols) : x[j] = cv[j].val
      implied == Len(s.rflags) = Len(rows) /\ \A i \in DOMAIN rows : rf[i] => \A x \in PBox(cols) : RowOk(rows[i], x)
      impliedRel == Len(s.rflags) = Len(rows) /\ Len(s.fixed) = Len(cols) /\ \A i \in DOMAIN rows : rf[i] => \A x \in PBox(cols) :
                        (\A j \in DOMAIN cols : cv[j].fixed => x[j] = cv[j].val) => RowOk(rows[i], x)
  IN IF rows = <<>> \/ cols = <<>> THEN {}            \* nothing is claimed about a polyhedron without rows or without columns (O14)
     ELSE IF s.exc # "" THEN {"ph_no_exception"} ELSE
     (IF s.call \in PEnvCalls THEN {} ELSE PFail("ph_receiver_unchanged", SameP(s.after, cur)))
     \cup (CASE s.call = "A" -> PFail("ph_split", s.res = [ i \in DOMAIN rows |-> rows[i].a ])
            [] s.call = "b" -> PFail("ph_split", s.res = [ i \in DOMAIN rows |-> rows[i].b ])
            [] s.call = "to_linalg" -> PFail("ph_split", s.res.A = [ i \in DOMAIN rows |-> rows[i].a ] /\ s.res.b = [ i \in DOMAIN rows |-> rows[i].b ])
            [] s.call = "column_bounds" -> PFail("ph_colb", s.res = << [ j \in DOMAIN cols |-> cols[j].lo ], [ j \in DOMAIN cols |-> cols[j].hi ] >>)
            [] s.call = "row_bounds" -> PFail("ph_rowb", Len(s.res) = Len(rows) /\ \A i \in DOMAIN rows :
                                               LET v == RowRange(rows[i], cols) IN s.res[i] = << SetMin(v), SetMax(v) >>)
            [] s.call = "ncomb" -> PFail("ph_ncomb", Len(s.res) = Len(rows) /\ \A i \in DOMAIN rows : s.res[i] = NComb(rows[i], cols))
            [] s.call = "tighten" -> PFail("ph_tighten", /\ Len(s.res) = 2 /\ Len(s.res[1]) = Len(cols) /\ Len(s.res[2]) = Len(cols)
                                                        /\ (\A x \in PSol(rows, cols) : \A j \in DOMAIN cols : s.res[1][j] <= x[j] /\ x[j] <= s.res[2][j])
                                                        /\ (\A j \in DOMAIN cols : s.res[1][j] >= cols[j].lo /\ s.res[2][j] <= cols[j].hi)
                                                        /\ ((\E j \in DOMAIN cols : s.res[1][j] > s.res[2][j]) => PSol(rows, cols) = {}))
            [] s.call = "red_rows" -> PFail("ph_red_rows", implied)
            [] s.call = "red_cols" -> PFail("ph_red_cols", forced)
            [] s.call = "rr_and_c" -> PFail("ph_red_cols", forced) \cup PFail("ph_red_rows", impliedRel)
            [] s.call = "sat" -> IF s.rshape = PerPointShape(s.pshape) THEN PFail("ph_sat", s.res = SatN(rows, s.points, s.ndim)) ELSE {"ph_sat"}
            [] s.call = "sep" -> IF s.rshape = PerPointShape(s.pshape) THEN PFail("ph_sep", s.res = SepN(rows, s.points, s.ndim)) ELSE {"ph_sep"}
            [] s.call = "rowsep" -> IF s.rshape = PerRowShape(s.pshape, Len(rows)) THEN PFail("ph_rowsep", s.res = RowSepN(rows, s.points, s.ndim)) ELSE {"ph_rowsep"}
            [] s.call = "idx" -> PFail("ph_idx", /\ { s.res.b[i] : i \in DOMAIN s.res.b } = BoolIdx(s.vars) /\ Len(s.res.b) = Cardinality(BoolIdx(s.vars))
                                                 /\ { s.res.i[i] : i \in DOMAIN s.res.i } = IntIdx(s.vars) /\ Len(s.res.i) = Cardinality(IntIdx(s.vars))
                                                 /\ Tail(s.vars) = cols)
            [] s.call \in {"copy", "rewrap"} -> PFail("ph_same_polyhedron", SameP(s.res, cur))
            [] s.call \in {"reduce_cols", "reduce_cols_q"} -> PFail("ph_red_cols", forced)
                                         \cup PFail("ph_reduce_cols_fn", Len(s.fixed) = Len(cols) /\ LET n == ReduceCols(rows, cols, cv) IN
                                                          s.new.rows = n.rows /\ s.new.cols = n.cols /\ s.new.index = cur.index)
            [] s.call \in {"reduce_rows", "reduce_rows_q"} -> PFail("ph_red_rows", implied)
                                         \cup PFail("ph_reduce_rows_fn", Len(s.rflags) = Len(rows) /\ s.new.rows = ReduceRows(rows, rf) /\ s.new.cols = cols
                                                          /\ s.new.index = ReduceRows(cur.index, rf))
            [] s.call \in {"reduce_both", "reduce_both_q"} -> PFail("ph_red_cols", forced) \cup PFail("ph_red_rows", impliedRel)
                                         \cup PFail("ph_projection", Len(s.fixed) = Len(cols) /\ WellFormed(s.new.rows, s.new.cols)
                                                          /\ ProjOK(rows, cols, cv, s.new.rows, s.new.cols))
                                         \cup PFail("ph_labels", Len(s.rflags) = Len(rows) /\ s.new.index = ReduceRows(cur.index, rf))
            [] s.call = "assign_lo" -> PFail("ph_reduce_cols_fn", LET n == ReduceCols(rows, cols, [ j \in DOMAIN cols |-> [fixed |-> TRUE, val |-> cols[j].lo] ]) IN
                                                          s.new.rows = n.rows /\ s.new.cols = n.cols /\ s.new.index = cur.index)
            [] s.call = "drop_none" -> PFail("ph_reduce_rows_fn", SameP(s.new, cur))
            [] s.call = "edit" -> PFail("ph_edit_seen", SameP(s.after, EditP(cur)))
            [] s.call = "widen" -> PFail("ph_edit_seen", SameP(s.after, WidenP(cur)))
            [] OTHER -> {})
\* what the object denotes after the step: the caller goes on with the RECORDED result of a reduction call (judged above), with the
\* declared edit, or with the same object
PNextCur(s, cur) == IF s.exc # "" THEN cur
                    ELSE IF s.call \in PStepCalls THEN s.new
                    ELSE IF s.call = "edit" THEN EditP(cur) ELSE IF s.call = "widen" THEN WidenP(cur) ELSE cur
RECURSIVE PolyHistV(_, _, _)
PolyHistV(steps, k, cur) == IF k > Len(steps) THEN {}
                            ELSE PStepV(steps[k], cur) \cup PolyHistV(steps, k + 1, PNextCur(steps[k], cur))
EvPolyHistory(e) == IF ~WellFormed(e.init.rows, e.init.cols) THEN {"outside_domain"} ELSE PolyHistV(e.steps, 1, e.init)

PolyOpNames == {"reduce_oneshot", "reduce_ops", "tighten", "classify", "construct", "partition", "lists", "split_Ab", "poly_history"}
PolyVerdict(e) ==
  CASE e.op = "reduce_oneshot" -> EvReduceOneShot(e)
    [] e.op = "reduce_ops"     -> EvReduceOps(e)
    [] e.op = "tighten"        -> EvTighten(e)
    [] e.op = "classify"       -> EvClassify(e)
    [] e.op = "construct"      -> EvConstruct(e)
    [] e.op = "partition"      -> EvPartition(e)
    [] e.op = "lists"          -> EvLists(e)
    [] e.op = "split_Ab"       -> EvSplitAb(e)
    [] e.op = "poly_history"   -> EvPolyHistory(e)
    [] OTHER                   -> {}
=============================================================================
