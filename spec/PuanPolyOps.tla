---------------------------- MODULE PuanPolyOps ----------------------------
EXTENDS Integers, Sequences, FiniteSets, TLC
PolyVerdict(e) == {}
=============================================================================
