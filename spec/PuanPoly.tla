------------------------------ MODULE PuanPoly ------------------------------
(***************************************************************************)
(* The fixpoint loop of ge_polyhedron.reducable_rows_and_columns as a      *)
(* machine (one action per statement group of the loop), started from      *)
(* every polyhedron of the configured universe (rows are added by actions  *)
(* so that TLC enumerates them with all workers).  Invariants: C11         *)
(* (projection of the solution set is preserved by every step, flagged     *)
(* rows are implied, forced columns are forced), C12 (tightening never     *)
(* cuts a solution, never widens, contradiction only if empty; row bounds  *)
(* and combination counts exact).  Liveness: the loop terminates.          *)
(***************************************************************************)
EXTENDS PuanPolyOps

CONSTANTS NR,          \* max number of rows
          NC,          \* number of columns
          Coefs, Bs,   \* entries of A, entries of b
          BoundOpts    \* set of <<lo, hi>> pairs for column bounds

VARIABLES rows0, cols0,      \* the original polyhedron
          rows, cols,        \* current _M
          cv,                \* per ORIGINAL column: [fixed, val] accumulated so far (full_cols)
          fr,                \* per ORIGINAL row: flagged reducible so far (full_rows)
          alive,             \* positions (in rows0) of the rows still in _M
          redc, redr, pc
vars == <<rows0, cols0, rows, cols, cv, fr, alive, redc, redr, pc>>

ColId(j) == "x" \o ToString(j)
RowSet == [b : Bs, a : [1..NC -> Coefs]]
NoFix == [ j \in 1..NC |-> [fixed |-> FALSE, val |-> 0] ]

Init == /\ \E bo \in [1..NC -> BoundOpts] : cols0 = [ j \in 1..NC |-> [id |-> ColId(j), lo |-> bo[j][1], hi |-> bo[j][2]] ]
        /\ rows0 = <<>> /\ rows = <<>> /\ cols = <<>> /\ cv = NoFix /\ fr = <<>> /\ alive = <<>>
        /\ redc = <<>> /\ redr = <<>> /\ pc = "build"

AddRow == /\ pc = "build" /\ Len(rows0) < NR
          /\ \E r \in RowSet : rows0' = Append(rows0, r)
          /\ UNCHANGED <<cols0, rows, cols, cv, fr, alive, redc, redr, pc>>
\* _M = self.copy(); red_cols = reducable_columns_approx(_M); red_rows = reducable_rows(_M)
Start == /\ pc = "build" /\ Len(rows0) >= 1
         /\ rows' = rows0 /\ cols' = cols0
         /\ redc' = RedCols(rows0, cols0) /\ redr' = RedRows(rows0, cols0)
         /\ fr' = [ i \in DOMAIN rows0 |-> FALSE ] /\ alive' = [ i \in DOMAIN rows0 |-> i ]
         /\ pc' = "test"
         /\ UNCHANGED <<rows0, cols0, cv>>
AnyTrue(f) == \E i \in DOMAIN f : f[i]
\* while (~isnan(red_cols)).any() | red_rows.any():
Test == /\ pc = "test"
        /\ pc' = IF AnyTrue([ j \in DOMAIN redc |-> redc[j].fixed ]) \/ AnyTrue(redr) THEN "cols" ELSE "done"
        /\ UNCHANGED <<rows0, cols0, rows, cols, cv, fr, alive, redc, redr>>
\* _M = reduce_columns(_M, red_cols); full_cols[isnan(full_cols)] = red_cols; if _M.shape[1] <= 1: break
DoCols == /\ pc = "cols"
          /\ LET s == ReduceCols(rows, cols, redc) IN
               /\ rows' = s.rows /\ cols' = s.cols
               /\ cv' = [ j \in 1..NC |-> IF cv[j].fixed THEN cv[j]
                                          ELSE LET k == CHOOSE k \in DOMAIN cols : cols[k].id = cols0[j].id IN redc[k] ]
               /\ pc' = IF Len(s.cols) = 0 THEN "done" ELSE "rows"
          /\ UNCHANGED <<rows0, cols0, fr, alive, redc, redr>>
\* red_rows = reducable_rows(_M); _M = reduce_rows(_M, red_rows); full_rows[full_rows == 0] = red_rows; if no rows: break
DoRows == /\ pc = "rows"
          /\ LET rr == RedRows(rows, cols) IN
               /\ rows' = ReduceRows(rows, rr)
               /\ alive' = ReduceRows(alive, rr)
               /\ fr' = [ i \in DOMAIN fr |-> fr[i] \/ \E k \in DOMAIN alive : alive[k] = i /\ rr[k] ]
               /\ redr' = rr
               /\ pc' = IF ReduceRows(rows, rr) = <<>> THEN "done" ELSE "recompute"
          /\ UNCHANGED <<rows0, cols0, cols, cv, redc>>
\* red_cols = reducable_columns_approx(_M); red_rows = reducable_rows(_M)
Recompute == /\ pc = "recompute"
             /\ redc' = RedCols(rows, cols) /\ redr' = RedRows(rows, cols)
             /\ pc' = "test"
             /\ UNCHANGED <<rows0, cols0, rows, cols, cv, fr, alive>>
Next == AddRow \/ Start \/ Test \/ DoCols \/ DoRows \/ Recompute
Spec == Init /\ [][Next]_vars
LoopNext == Test \/ DoCols \/ DoRows \/ Recompute
FairSpec == Spec /\ WF_vars(LoopNext)

(* ---- properties ------------------------------------------------------------------ *)
Running == pc # "build"
\* C11: every step keeps the solution set (lifted by the fixed values); flagged rows are implied by the box;
\* forced columns take their value in every solution
ProjInv == Running => ProjOK(rows0, cols0, cv, rows, cols)
\* (rows flagged by the combined loop are implied by the box once the forced columns have their forced values;
\*  for a single reducable_rows() call nothing is fixed and this is "every in-bounds point")
RowsImplied == Running => \A i \in DOMAIN rows0 : fr[i] => \A x \in PBox(cols0) :
                              (\A j \in 1..NC : cv[j].fixed => x[j] = cv[j].val) => RowOk(rows0[i], x)
ColsForced == Running => \A j \in 1..NC : cv[j].fixed => \A x \in PSol(rows0, cols0) : x[j] = cv[j].val
\* the final reduce(full_rows, full_cols) of the original
FinalReduce == pc = "done" => LET r == ReduceCols(ReduceRows(rows0, fr), cols0, cv) IN ProjOK(rows0, cols0, cv, r.rows, r.cols)
\* C12 on the original
TightSound == Running => LET t == Tighten(rows0, cols0) S == PSol(rows0, cols0) IN
   /\ \A x \in S : \A j \in 1..NC : t[j].lo <= x[j] /\ x[j] <= t[j].hi
   /\ \A j \in 1..NC : t[j].lo >= cols0[j].lo /\ t[j].hi <= cols0[j].hi
   /\ (\E j \in 1..NC : t[j].lo > t[j].hi) => S = {}
RowBoundsExact == Running => \A i \in DOMAIN rows0 : LET v == RowRange(rows0[i], cols0) IN
   /\ RowLb(rows0[i], cols0) = SetMin(v) /\ RowUb(rows0[i], cols0) = SetMax(v)
   /\ NCombFormula(rows0[i], cols0) = NComb(rows0[i], cols0)
Terminates == [](Running => <>(pc = "done"))
=============================================================================
