----------------------------- MODULE PuanBridge -----------------------------
(***************************************************************************)
(* Universe generator and specification-level sanity of the id/position    *)
(* bridges (C20): variable lists are built one variable at a time, then a  *)
(* dictionary / list is chosen.  Invariants state what the bridges mean.   *)
(***************************************************************************)
EXTENDS PuanPolyOps
CONSTANTS IdPool, BoundOpts, MaxVars, Vals, Unknown
VARIABLES vars, d, lst, phase
vs == <<vars, d, lst, phase>>

Init == vars = <<>> /\ d = EmptyFn /\ lst = <<>> /\ phase = "vars"
AddVar == /\ phase = "vars" /\ Len(vars) < MaxVars
          /\ \E i \in IdPool \ { vars[j].id : j \in DOMAIN vars } : \E b \in BoundOpts :
                vars' = Append(vars, [id |-> i, lo |-> b[1], hi |-> b[2]])
          /\ UNCHANGED <<d, lst, phase>>
Keys == { vars[j].id : j \in DOMAIN vars } \cup {Unknown}
ChooseDict == /\ phase = "vars" /\ Len(vars) >= 1
              /\ \E K \in SUBSET Keys : \E f \in [K -> Vals] : d' = f
              /\ phase' = "dict" /\ UNCHANGED <<vars, lst>>
ChooseList == /\ phase = "dict"
              /\ \E n \in 0..2 : \E f \in [1..n -> Keys] : lst' = f
              /\ phase' = "done" /\ UNCHANGED <<vars, d>>
Next == AddVar \/ ChooseDict \/ ChooseList
Spec == Init /\ [][Next]_vs

Ctx == [ j \in DOMAIN vars |-> vars[j].id ]
C20 == /\ BoolIdx(vars) \cup IntIdx(vars) = { j - 1 : j \in DOMAIN vars } /\ BoolIdx(vars) \cap IntIdx(vars) = {}
       /\ phase # "vars" => LET c == ConstructSpec(vars, d, "lower", EmptyFn) IN
             /\ Len(c) = Len(vars)
             /\ \A j \in DOMAIN vars : (vars[j].id \in DOMAIN d => c[j] = <<0, d[vars[j].id]>>) /\ (vars[j].id \notin DOMAIN d => c[j] = <<0, vars[j].lo>>)
       /\ phase = "done" => LET b == FromListBool(lst, Ctx) i == FromListInt(lst, Ctx) IN
             /\ \A j \in DOMAIN vars : (b[j] = 1) <=> (\E k \in DOMAIN lst : lst[k] = vars[j].id)
             /\ \A j \in DOMAIN vars : (i[j] > 0) => lst[i[j]] = vars[j].id
             /\ { ToList(b, vars)[k] : k \in DOMAIN ToList(b, vars) } = { lst[k] : k \in DOMAIN lst } \ {Unknown}
=============================================================================
