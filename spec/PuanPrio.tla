------------------------------ MODULE PuanPrio ------------------------------
(***************************************************************************)
(* Universe generator for priority arrays (rows are appended by actions)   *)
(* and the specification-level statements of C13 / C14: the shadow         *)
(* algorithm satisfies the dominance relation, 'prio' is a dense ranking   *)
(* of levels, and shadow weights rank all 0/1 selections exactly like the  *)
(* lexicographic order on levels (later rows first, larger magnitude       *)
(* first, positive = selected, negative = avoided).                        *)
(***************************************************************************)
EXTENDS PuanPrioOps
CONSTANTS NRows, NColsC, Vals
VARIABLES X
Init == X = <<>>
AddRow == /\ Len(X) < NRows
          /\ \E r \in [1..NColsC -> Vals] : X' = Append(X, r)
Spec == Init /\ [][AddRow]_X

ShadowAlg == X # <<>> => ShadowOK(X, Shadow(X))
PrioDense == X # <<>> => LET p == Prio(X) V == { Abs(p[j]) : j \in Live(X) } IN
                /\ \A j \in Cols(X) : (p[j] = 0) <=> (j \notin Live(X))
                /\ Live(X) # {} => V = 1..Cardinality(Levels(X))
                /\ \A j, k \in Live(X) : Below(X, j, k) <=> Abs(p[j]) < Abs(p[k])
RanksAll == X # <<>> => RanksOn(X, Shadow(X), [Cols(X) -> {0, 1}])
\* 'first'/'last'/'min'/'max' are what their names say
Exact == X # <<>> => \A j \in Cols(X) :
            /\ (LastNZ(X)[j] # 0 => \E i \in DOMAIN X : X[i][j] = LastNZ(X)[j] /\ \A i2 \in DOMAIN X : i2 > i => X[i2][j] = 0)
            /\ (FirstNZ(X)[j] # 0 => \E i \in DOMAIN X : X[i][j] = FirstNZ(X)[j] /\ \A i2 \in DOMAIN X : i2 < i => X[i2][j] = 0)
            /\ (MinNZ(X)[j] = 0 <=> j \notin Live(X))
=============================================================================
